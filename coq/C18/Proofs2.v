(* C18 proofs, part 2: (D) the sharp range of the round trip -- when the exact product is an integer
   (formatter output parsed back, token -> ledger re-scaling) the two away-from-zero roundings are
   harmless up to |n| < 2^510, and the round trip really fails at 2^511 - 1; (E) compositions of the two
   re-scaling directions as the account database uses them; (F) injectivity of the formatter and corollaries
   over EVM words; (G) the float precision as a parameter: 258 bits are necessary and sufficient. *)
From Coq Require Import List NArith ZArith Lia Bool.
From V.Base Require Import Hex.
From V.C18 Require Import Model Proofs.
Import ListNotations.
Local Open Scope Z_scope.

(* ====================== D. exact products ====================== *)

(* as [trunc_mul_round], but the exact product n*T/d is the integer f: the bound involves f only *)
Lemma trunc_mul_round_exact prec neg n d T f :
  0 < n -> 0 < d -> 0 < T -> 1 <= prec ->
  n * T = f * d ->
  f * (2 * 2 ^ (prec - 1) + 1) < 2 ^ (prec - 1) * 2 ^ (prec - 1) ->
  bf_trunc (bf_mul AwayFromZero prec neg (round_q AwayFromZero prec neg n d) (BF T 0)) = f.
Proof.
  intros Hn Hd HT Hp HA Hb.
  pose proof (round_away_spec prec neg n d Hn Hd Hp) as S1.
  set (x := round_q AwayFromZero prec neg n d) in *.
  unfold bf_mul. cbn [bm be]. destruct x as [m e]. cbn [bm be].
  rewrite frac_of_mul_int.
  destruct (frac_of (BF m e)) as [N D] eqn:EF. cbn [fst snd].
  destruct S1 as (HD & L1 & U1).
  assert (HN : 0 < N) by nia.
  assert (HNT : 0 < N * T) by nia.
  pose proof (round_away_spec prec neg (N * T) D HNT HD Hp) as S2.
  set (y := round_q AwayFromZero prec neg (N * T) D) in *.
  unfold bf_trunc. destruct (frac_of y) as [N2 D2]. destruct S2 as (HD2 & L2 & U2).
  set (P := 2 ^ (prec - 1)) in *. assert (HP : 0 < P) by (apply pow2_pos; lia).
  assert (Hf : 0 < f) by nia.
  (* lower: f * D2 <= N2 *)
  assert (Lowf : f * D2 <= N2).
  { assert (n * T * D * D2 <= N * T * d * D2) by nia.
    assert (N * T * D2 * d <= N2 * D * d) by nia.
    assert (f * d * D2 * D <= N2 * d * D) by (rewrite <- HA; lia).
    assert (0 < d * D) by nia.
    assert (f * D2 * (d * D) <= N2 * (d * D)) by lia. nia. }
  (* upper: N2 * P^2 <= f * D2 * (P+1)^2 *)
  assert (Up : N2 * (P * P) <= f * D2 * ((P + 1) * (P + 1))).
  { assert (U2' : N2 * D * P * (d * P) <= N * T * D2 * (P + 1) * (d * P)) by (apply Z.mul_le_mono_nonneg_r; nia).
    assert (U1' : N * d * P * (T * D2 * (P + 1)) <= n * D * (P + 1) * (T * D2 * (P + 1))) by (apply Z.mul_le_mono_nonneg_r; nia).
    assert (N2 * d * (P * P) * D <= n * T * D2 * ((P + 1) * (P + 1)) * D) by lia.
    rewrite HA in H.
    assert (0 < d * D) by nia.
    assert (N2 * (P * P) * (d * D) <= f * D2 * ((P + 1) * (P + 1)) * (d * D)) by lia. nia. }
  assert (Upf : N2 < (f + 1) * D2).
  { assert (E1 : f * D2 * ((P + 1) * (P + 1)) = f * D2 * (P * P) + f * (2 * P + 1) * D2) by ring.
    assert (f * (2 * P + 1) * D2 < P * P * D2) by nia.
    assert (N2 * (P * P) < (f + 1) * D2 * (P * P)) by lia.
    assert (0 < P * P) by nia. nia. }
  symmetry. apply Z.div_unique with (r := N2 - f * D2); lia.
Qed.

(* what strToBigInt computes on sign? digits [. digits{<=27}] with a non-zero mantissa:
   round(M / 10^k), times 10^dd rounded again, truncated *)
Lemma str_pipeline sg ip fp dot dd :
  Forall digit ip -> Forall digit fp -> ip ++ fp <> [] -> (dot = false -> fp = []) ->
  0 <= dd -> (length fp <= 27)%nat -> 0 < horner (ip ++ fp) ->
  str_to_bigint_d (dec_string sg ip fp dot) dd =
  Ok (let t := bf_trunc (bf_mul AwayFromZero code_prec (sign_neg sg)
                           (round_q AwayFromZero code_prec (sign_neg sg) (horner (ip ++ fp)) (10 ^ Z.of_nat (length fp)))
                           (BF (10 ^ dd) 0)) in
      if sign_neg sg then - t else t).
Proof.
  intros Fi Ff Hne Hdot Hdd Hk HMp.
  unfold str_to_bigint_d, str_to_bigint_gen.
  destruct (dec_string sg ip fp dot) as [|c0 s0] eqn:Es.
  { exfalso. unfold dec_string in Es. destruct sg as [[|]|]; cbn in Es; try discriminate.
    destruct ip; [|discriminate]. destruct dot; [discriminate|]. rewrite (Hdot eq_refl) in Hne. auto. }
  rewrite <- Es. rewrite (parse_decimal sg ip fp dot Fi Ff Hne Hdot).
  set (M := horner (ip ++ fp)) in *. set (k := Z.of_nat (length fp)).
  assert (Hk' : 0 <= k <= 27) by (unfold k; lia).
  unfold float_of_number.
  destruct (Z.eqb_spec M 0) as [HM0 | HM0]; [lia|].
  change (10 =? 10) with true. cbn iota.
  unfold pow10. destruct (Z.ltb_spec dd 0); [lia|].
  destruct (Z.eqb_spec (0 - k) 0) as [Hk0 | Hk0].
  - assert (E : k = 0) by lia. rewrite E. change (0 - 0) with 0.
    unfold frac_of at 1. cbn [be bm]. change (0 <=? 0) with true. cbn iota.
    change (2 ^ 0) with 1. change (10 ^ 0) with 1. rewrite Z.mul_1_r. reflexivity.
  - destruct (Z.ltb_spec (0 - k) 0) as [Hneg | Hpos]; [|lia].
    replace (- (0 - k)) with k by lia. rewrite (pow5_small _ k Hk'). cbn [be bm].
    unfold frac_of at 1. cbn [be bm]. replace (0 - k - 0) with (- k) by lia.
    destruct (Z.leb_spec 0 (- k)); [lia|]. rewrite Z.opp_involutive.
    assert (E10 : 2 ^ k * 5 ^ k = 10 ^ k) by (rewrite <- Z.pow_mul_l; reflexivity).
    rewrite E10. reflexivity.
Qed.

Definition bound510 : Z := 2 ^ 510.

Lemma bound510_ok f : 0 <= f < bound510 -> f * (2 * P512 + 1) < P512 * P512.
Proof.
  intros Hf.
  assert (K : (bound510 - 1) * (2 * P512 + 1) < P512 * P512) by (vm_compute; reflexivity).
  assert (0 < 2 * P512 + 1) by (vm_compute; reflexivity). nia.
Qed.

(* formatter output with p fractional digits parsed with dd >= p decimals: exact scaling, sharp range *)
Lemma format_parse_exact n p dd : 0 <= p <= 27 -> p <= dd ->
  Z.abs n * 10 ^ (dd - p) < bound510 ->
  str_to_bigint_d (bigint_to_str_p n p) dd = Ok (n * 10 ^ (dd - p)).
Proof.
  intros Hp Hdd Hn.
  destruct (bigint_to_str_p_shape n p ltac:(lia)) as (ip & fp & E & Fi & Ff & Hne & Hl & Hv).
  assert (Hne' : ip ++ fp <> []) by (destruct ip; [congruence | discriminate]).
  assert (Hdot : negb (p =? 0) = false -> fp = []).
  { intro Hd. apply negb_false_iff in Hd. apply Z.eqb_eq in Hd. destruct fp; [reflexivity | cbn in Hl; lia]. }
  assert (Hs : 0 < 10 ^ (dd - p)) by (apply Z.pow_pos_nonneg; lia).
  assert (Hk : 0 < 10 ^ p) by (apply Z.pow_pos_nonneg; lia).
  assert (E10 : 10 ^ dd = 10 ^ (dd - p) * 10 ^ p) by (rewrite <- Z.pow_add_r by lia; f_equal; lia).
  rewrite E. destruct (Z.eq_dec n 0) as [-> | Hz].
  - (* zero mantissa *)
    rewrite str_value; try assumption; try lia.
    + rewrite Hv. cbn [Z.abs Z.mul]. rewrite Z.div_0_l by lia.
      change (0 <? 0) with false. reflexivity.
    + rewrite Hv. cbn [Z.abs Z.mul]. vm_compute. reflexivity.
  - rewrite str_pipeline; try assumption; try lia.
    rewrite Hv, Hl. cbn zeta.
    assert (HA : Z.abs n * 10 ^ dd = Z.abs n * 10 ^ (dd - p) * 10 ^ p) by (rewrite E10; ring).
    assert (HB : Z.abs n * 10 ^ (dd - p) * (2 * 2 ^ (code_prec - 1) + 1) < 2 ^ (code_prec - 1) * 2 ^ (code_prec - 1)).
    { apply (bound510_ok (Z.abs n * 10 ^ (dd - p))). nia. }
    assert (HT : 0 < 10 ^ dd) by (apply Z.pow_pos_nonneg; lia).
    assert (Hprec : 1 <= code_prec) by (unfold code_prec; lia).
    rewrite (trunc_mul_round_exact code_prec _ (Z.abs n) (10 ^ p) (10 ^ dd) (Z.abs n * 10 ^ (dd - p))
               ltac:(lia) Hk HT Hprec HA HB).
    destruct (Z.ltb_spec n 0); cbn [sign_neg]; f_equal; lia.
Qed.

Lemma roundtrip_sharp n : Z.abs n < bound510 -> str_to_bigint (bigint_to_str n) = Ok n.
Proof.
  intro Hn. unfold bigint_to_str, str_to_bigint. destruct (Z.eqb_spec n 0) as [-> | Hz].
  - vm_compute. reflexivity.
  - unfold default_decimal.
    assert (E0 : 10 ^ (18 - 18) = 1) by reflexivity.
    rewrite format_parse_exact; rewrite ?E0; try lia. f_equal; lia.
Qed.

(* the range is sharp within a factor of two: 2^511 - 1 does not survive *)
Lemma roundtrip_limit : str_to_bigint (bigint_to_str (2 ^ 511 - 1)) = Ok (2 ^ 511).
Proof. vm_compute. reflexivity. Qed.

Lemma rescale_rocket_sharp n d : 0 <= d <= 18 -> Z.abs n * 10 ^ (18 - d) < bound510 ->
  format_rocket n d = Ok (n * 10 ^ (18 - d)).
Proof.
  intros Hd Hn. unfold format_rocket. destruct (Z.eqb_spec n 0) as [-> | Hz]; [reflexivity|].
  unfold str_to_bigint, default_decimal. apply format_parse_exact; lia.
Qed.

Lemma rescale_id_sharp n : Z.abs n < bound510 -> format_erc20 n 18 = Ok n /\ format_rocket n 18 = Ok n.
Proof.
  intro Hn. split.
  - unfold format_erc20. destruct (Z.eqb_spec n 0) as [-> | Hz]; [reflexivity|].
    pose proof (roundtrip_sharp n Hn) as R. unfold str_to_bigint, default_decimal in R. exact R.
  - assert (E0 : 10 ^ (18 - 18) = 1) by reflexivity.
    rewrite rescale_rocket_sharp; rewrite ?E0; try lia. f_equal; lia.
Qed.

(* ====================== E. compositions used by the account database ====================== *)

(* token unit -> ledger unit -> token unit (GetBalance then SetBalance on an ERC20-bound coin): identity *)
Lemma token_ledger_token m d : 0 <= d <= 18 -> Z.abs m * 10 ^ (18 - d) < bound450 ->
  exists r, format_rocket m d = Ok r /\ format_erc20 r d = Ok m.
Proof.
  intros Hd Hm.
  assert (Hs : 0 < 10 ^ (18 - d)) by (apply Z.pow_pos_nonneg; lia).
  assert (Hm' : Z.abs m < bound450) by nia.
  exists (m * 10 ^ (18 - d)). split; [apply rescale_rocket; assumption|].
  assert (Hb : Z.abs (m * 10 ^ (18 - d)) < bound450).
  { rewrite Z.abs_mul, (Z.abs_eq (10 ^ (18 - d))) by lia. exact Hm. }
  rewrite (rescale_erc20 _ d Hd Hb). rewrite Z.quot_mul by lia. reflexivity.
Qed.

(* ledger unit -> token unit -> ledger unit (SetBalance then GetBalance): the amount rounded toward zero
   to a multiple of 10^(18-d); nothing is lost exactly when d = 18 or the amount is such a multiple *)
Lemma ledger_token_ledger n d : 0 <= d <= 18 -> Z.abs n < bound450 ->
  exists t, format_erc20 n d = Ok t /\ format_rocket t d = Ok (n - Z.rem n (10 ^ (18 - d))).
Proof.
  intros Hd Hn.
  assert (Hs : 0 < 10 ^ (18 - d)) by (apply Z.pow_pos_nonneg; lia).
  set (s := 10 ^ (18 - d)) in *.
  exists (Z.quot n s). split; [apply rescale_erc20; assumption|].
  assert (Ht : Z.abs (Z.quot n s) <= Z.abs n).
  { rewrite <- Z.quot_abs by lia. rewrite (Z.abs_eq s) by lia.
    rewrite Z.quot_div_nonneg by lia.
    pose proof (Z.mul_div_le (Z.abs n) s Hs). assert (0 <= Z.abs n / s) by (apply Z.div_pos; lia). nia. }
  assert (Hb : Z.abs (Z.quot n s) < bound450) by lia.
  rewrite (rescale_rocket _ d Hd Hb). fold s. f_equal.
  pose proof (Z.quot_rem' n s). lia.
Qed.

(* ====================== F. the formatter is injective ====================== *)
Lemma format_injective n m : Z.abs n < bound510 -> Z.abs m < bound510 ->
  bigint_to_str n = bigint_to_str m -> n = m.
Proof.
  intros Hn Hm E. pose proof (roundtrip_sharp n Hn) as R1. pose proof (roundtrip_sharp m Hm) as R2.
  rewrite E, R2 in R1. injection R1. auto.
Qed.

(* ====================== F2. corollaries in the property's own terms ====================== *)
(* the property's quantifier, literally: EVM words and every token decimal count 0..18 *)
Lemma rescale_evm_word n d : 0 <= n < 2 ^ 256 -> 0 <= d <= 18 ->
  format_erc20 n d = Ok (n / 10 ^ (18 - d)) /\ format_rocket n d = Ok (n * 10 ^ (18 - d)).
Proof.
  intros Hn Hd.
  assert (H1 : 2 ^ 256 < bound450) by (vm_compute; reflexivity).
  assert (Hs : 0 < 10 ^ (18 - d)) by (apply Z.pow_pos_nonneg; lia).
  assert (Hs' : 10 ^ (18 - d) <= 10 ^ 18) by (apply Z.pow_le_mono_r; lia).
  assert (H2 : 2 ^ 256 * 10 ^ 18 < bound510) by (vm_compute; reflexivity).
  split.
  - rewrite rescale_erc20 by lia. rewrite Z.quot_div_nonneg by lia. reflexivity.
  - apply rescale_rocket_sharp; [lia|]. rewrite Z.abs_eq by lia. nia.
Qed.

(* a plain unsigned integer string (the STAKE opcode's strconv.FormatUint path): value * 10^18 *)
Lemma parse_uint_string ip : Forall digit ip -> ip <> [] -> (length ip <= 78)%nat ->
  str_to_bigint ip = Ok (horner ip * 10 ^ 18).
Proof.
  intros Fi Hne Hl.
  pose proof (parse_exact None ip [] false Fi (Forall_nil _)) as H.
  unfold dec_string in H. cbn [sign_bytes app sign_neg length] in H. rewrite !app_nil_r in H.
  rewrite H; auto; try lia.
  cbn zeta. f_equal. unfold horner at 2. cbn [fold_left]. lia.
Qed.

(* ====================== G. the precision as a parameter ====================== *)
Lemma dec_string_nonempty sg ip fp dot : ip ++ fp <> [] -> (dot = false -> fp = []) -> dec_string sg ip fp dot <> [].
Proof.
  intros Hne Hdot Es. unfold dec_string in Es. destruct sg as [[|]|]; cbn in Es; try discriminate.
  destruct ip; [|discriminate]. destruct dot; [discriminate|]. rewrite (Hdot eq_refl) in Hne. auto.
Qed.

Lemma str_zero_gen md prec sg ip fp dot dd :
  Forall digit ip -> Forall digit fp -> ip ++ fp <> [] -> (dot = false -> fp = []) ->
  horner (ip ++ fp) = 0 ->
  str_to_bigint_gen md prec (dec_string sg ip fp dot) dd = Ok 0.
Proof.
  intros Fi Ff Hne Hdot HM. unfold str_to_bigint_gen.
  destruct (dec_string sg ip fp dot) as [|c0 s0] eqn:Es.
  { exfalso. eapply dec_string_nonempty; eauto. }
  rewrite <- Es. rewrite (parse_decimal sg ip fp dot Fi Ff Hne Hdot).
  unfold float_of_number. rewrite HM. reflexivity.
Qed.

Lemma str_pipeline_gen prec sg ip fp dot dd :
  Forall digit ip -> Forall digit fp -> ip ++ fp <> [] -> (dot = false -> fp = []) ->
  0 <= dd -> (length fp <= 27)%nat -> 0 < horner (ip ++ fp) ->
  str_to_bigint_gen AwayFromZero prec (dec_string sg ip fp dot) dd =
  Ok (let t := bf_trunc (bf_mul AwayFromZero prec (sign_neg sg)
                           (round_q AwayFromZero prec (sign_neg sg) (horner (ip ++ fp)) (10 ^ Z.of_nat (length fp)))
                           (BF (10 ^ dd) 0)) in
      if sign_neg sg then - t else t).
Proof.
  intros Fi Ff Hne Hdot Hdd Hk HMp.
  unfold str_to_bigint_gen.
  destruct (dec_string sg ip fp dot) as [|c0 s0] eqn:Es.
  { exfalso. eapply dec_string_nonempty; eauto. }
  rewrite <- Es. rewrite (parse_decimal sg ip fp dot Fi Ff Hne Hdot).
  set (M := horner (ip ++ fp)) in *. set (k := Z.of_nat (length fp)).
  assert (Hk' : 0 <= k <= 27) by (unfold k; lia).
  unfold float_of_number.
  destruct (Z.eqb_spec M 0) as [HM0 | HM0]; [lia|].
  change (10 =? 10) with true. cbn iota.
  unfold pow10. destruct (Z.ltb_spec dd 0); [lia|].
  destruct (Z.eqb_spec (0 - k) 0) as [Hk0 | Hk0].
  - assert (E : k = 0) by lia. rewrite E. change (0 - 0) with 0.
    unfold frac_of at 1. cbn [be bm]. change (0 <=? 0) with true. cbn iota.
    change (2 ^ 0) with 1. change (10 ^ 0) with 1. rewrite Z.mul_1_r. reflexivity.
  - destruct (Z.ltb_spec (0 - k) 0) as [Hneg | Hpos]; [|lia].
    replace (- (0 - k)) with k by lia. rewrite (pow5_small _ k Hk'). cbn [be bm].
    unfold frac_of at 1. cbn [be bm]. replace (0 - k - 0) with (- k) by lia.
    destruct (Z.leb_spec 0 (- k)); [lia|]. rewrite Z.opp_involutive.
    assert (E10 : 2 ^ k * 5 ^ k = 10 ^ k) by (rewrite <- Z.pow_mul_l; reflexivity).
    rewrite E10. reflexivity.
Qed.

Lemma format_parse_exact_gen prec n p dd : 1 <= prec -> 0 <= p <= 27 -> p <= dd ->
  Z.abs n * 10 ^ (dd - p) * (2 * 2 ^ (prec - 1) + 1) < 2 ^ (prec - 1) * 2 ^ (prec - 1) ->
  str_to_bigint_gen AwayFromZero prec (bigint_to_str_p n p) dd = Ok (n * 10 ^ (dd - p)).
Proof.
  intros Hprec Hp Hdd HB.
  destruct (bigint_to_str_p_shape n p ltac:(lia)) as (ip & fp & E & Fi & Ff & Hne & Hl & Hv).
  assert (Hne' : ip ++ fp <> []) by (destruct ip; [congruence | discriminate]).
  assert (Hdot : negb (p =? 0) = false -> fp = []).
  { intro Hd. apply negb_false_iff in Hd. apply Z.eqb_eq in Hd. destruct fp; [reflexivity | cbn in Hl; lia]. }
  assert (Hk : 0 < 10 ^ p) by (apply Z.pow_pos_nonneg; lia).
  assert (E10 : 10 ^ dd = 10 ^ (dd - p) * 10 ^ p) by (rewrite <- Z.pow_add_r by lia; f_equal; lia).
  rewrite E. destruct (Z.eq_dec n 0) as [-> | Hz].
  - rewrite str_zero_gen; auto.
  - rewrite str_pipeline_gen; try assumption; try lia.
    rewrite Hv, Hl. cbn zeta.
    assert (HA : Z.abs n * 10 ^ dd = Z.abs n * 10 ^ (dd - p) * 10 ^ p) by (rewrite E10; ring).
    assert (HT : 0 < 10 ^ dd) by (apply Z.pow_pos_nonneg; lia).
    rewrite (trunc_mul_round_exact prec _ (Z.abs n) (10 ^ p) (10 ^ dd) (Z.abs n * 10 ^ (dd - p))
               ltac:(lia) Hk HT Hprec HA HB).
    destruct (Z.ltb_spec n 0); cbn [sign_neg]; f_equal; lia.
Qed.

(* the round trip at any precision: what is needed is |n| * (2^prec + 1) < 2^(2 prec - 2) *)
Lemma roundtrip_gen prec n : 1 <= prec ->
  Z.abs n * (2 * 2 ^ (prec - 1) + 1) < 2 ^ (prec - 1) * 2 ^ (prec - 1) ->
  str_to_bigint_gen AwayFromZero prec (bigint_to_str n) 18 = Ok n.
Proof.
  intros Hprec HB. unfold bigint_to_str. destruct (Z.eqb_spec n 0) as [-> | Hz].
  - reflexivity.
  - unfold default_decimal.
    assert (E0 : 10 ^ (18 - 18) = 1) by reflexivity.
    rewrite format_parse_exact_gen; rewrite ?E0; try lia. f_equal; lia.
Qed.

(* every EVM word survives at every precision from 258 bits upward (256 bits do not: Props.C18_needs_away_and_prec) *)
Lemma roundtrip_evm_word_any_prec prec n : 258 <= prec -> - 2 ^ 256 < n < 2 ^ 256 ->
  str_to_bigint_gen AwayFromZero prec (bigint_to_str n) 18 = Ok n.
Proof.
  intros Hprec Hn. apply roundtrip_gen; [lia|].
  set (P := 2 ^ (prec - 1)).
  assert (HP : 2 ^ 257 <= P) by (apply Z.pow_le_mono_r; lia).
  assert (E : 2 ^ 257 = 2 * 2 ^ 256) by reflexivity.
  assert (Hf : 2 * Z.abs n + 2 <= P) by lia.
  assert (0 <= Z.abs n) by lia.
  nia.
Qed.

(* ====================== H. decimal exponents ====================== *)
(* Any accepted string whose scan is  M * 10^(ex - k)  (mantissa digits M, k fractional digits, decimal
   exponent ex; "1e5", "1.5E-3", and the plain forms with ex = 0) with |ex - k| <= 27: the result is the
   exact value M * 10^(ex-k) * 10^dd truncated toward zero -- the power of five is exact up to 5^27 and
   the two away-from-zero roundings cancel as in [trunc_mul_round]. *)
Lemma exponent_value s neg M k ex dd :
  s <> [] -> parse_number s = Ok (NFin neg M k 10 ex) ->
  0 < M -> -27 <= ex - k <= 27 -> 0 <= dd ->
  M * 10 ^ Z.max 0 (ex - k) * 10 ^ dd * (2 * P512 + 1) < P512 * P512 ->
  str_to_bigint_d s dd =
  Ok (let t := M * 10 ^ Z.max 0 (ex - k) * 10 ^ dd / 10 ^ Z.max 0 (k - ex) in if neg then - t else t).
Proof.
  intros Hs Hp HM He Hdd Hb.
  unfold str_to_bigint_d, str_to_bigint_gen. destruct s as [|c0 s0]; [congruence|]. rewrite Hp.
  unfold float_of_number. destruct (Z.eqb_spec M 0); [lia|].
  change (10 =? 10) with true. cbn iota.
  unfold pow10. destruct (Z.ltb_spec dd 0); [lia|].
  assert (HT : 0 < 10 ^ dd) by (apply Z.pow_pos_nonneg; lia).
  assert (Hprec : 1 <= code_prec) by (unfold code_prec; lia).
  unfold P512 in Hb. unfold code_mode.
  set (e := ex - k) in *.
  destruct (Z.eqb_spec e 0) as [E0 | E0].
  - rewrite E0 in *. replace (k - ex) with 0 by lia. change (Z.max 0 0) with 0 in *. change (10 ^ 0) with 1 in *.
    unfold frac_of at 1. cbn [be bm]. change (0 <=? 0) with true. cbn iota. change (2 ^ 0) with 1.
    rewrite !Z.mul_1_r in *.
    rewrite (trunc_mul_round code_prec neg M 1 (10 ^ dd)); try lia. reflexivity.
  - destruct (Z.ltb_spec e 0) as [Hneg | Hpos].
    + (* division by 5^(-e) *)
      rewrite (pow5_small _ (- e)) by lia. cbn [be bm].
      unfold frac_of at 1. cbn [be bm]. replace (e - 0) with e by lia.
      destruct (Z.leb_spec 0 e); [lia|].
      assert (E10 : 2 ^ (- e) * 5 ^ (- e) = 10 ^ (- e)) by (rewrite <- Z.pow_mul_l; reflexivity).
      rewrite E10.
      replace (Z.max 0 e) with 0 in * by lia. replace (Z.max 0 (k - ex)) with (- e) by lia.
      change (10 ^ 0) with 1 in *. rewrite Z.mul_1_r in *.
      assert (0 < 10 ^ (- e)) by (apply Z.pow_pos_nonneg; lia).
      rewrite (trunc_mul_round code_prec neg M (10 ^ (- e)) (10 ^ dd)); try lia. reflexivity.
    + (* multiplication by 5^e *)
      rewrite (pow5_small _ e) by lia. cbn [be bm].
      unfold frac_of at 1. cbn [be bm]. replace (e + 0) with e by lia.
      destruct (Z.leb_spec 0 e); [|lia].
      assert (E10 : M * 5 ^ e * 2 ^ e = M * 10 ^ e).
      { rewrite <- Z.mul_assoc. f_equal. rewrite <- Z.pow_mul_l. reflexivity. }
      rewrite E10.
      replace (Z.max 0 e) with e in * by lia. replace (Z.max 0 (k - ex)) with 0 by lia.
      change (10 ^ 0) with 1. rewrite Z.div_1_r.
      assert (0 < 10 ^ e) by (apply Z.pow_pos_nonneg; lia).
      assert (HB : M * 10 ^ e * 10 ^ dd * (2 * 2 ^ (code_prec - 1) + 1) < 2 ^ (code_prec - 1) * 2 ^ (code_prec - 1)) by lia.
      rewrite (trunc_mul_round code_prec neg (M * 10 ^ e) 1 (10 ^ dd) ltac:(nia) ltac:(lia) HT Hprec HB).
      rewrite ?Z.div_1_r. reflexivity.
Qed.

(* instances: "1e5" = 100000 tokens, "1.5E-3" = 0.0015 tokens, "12345678901234567890e-20" *)
Example exponent_examples :
  str_to_bigint [49; 101; 53]%N = Ok (100000 * 10 ^ 18) /\
  str_to_bigint [49; 46; 53; 69; 45; 51]%N = Ok 1500000000000000.
Proof. split; vm_compute; reflexivity. Qed.
