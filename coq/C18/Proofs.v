(* C18 proofs: (A) error bounds of one away-from-zero rounding and of the parse/multiply/truncate
   pipeline, (B) digit strings: formatter output shape and the parser on decimal strings,
   (C) the composed statements. *)
From Coq Require Import List NArith ZArith Lia Bool.
From V.Base Require Import Hex.
From V.C18 Require Import Model.
Import ListNotations.
Local Open Scope Z_scope.

(* ====================== A. rounding arithmetic ====================== *)

Lemma pow2_pos k : 0 <= k -> 0 < 2 ^ k.
Proof. intro. apply Z.pow_pos_nonneg; lia. Qed.

Lemma div_eucl_eq a b : Z.div_eucl a b = (a / b, a mod b).
Proof. unfold Z.div, Z.modulo. destruct (Z.div_eucl a b); reflexivity. Qed.

Lemma qlog2_spec n d : 0 < n -> 0 < d ->
  let l := qlog2 n d in (0 <= l -> d * 2 ^ l <= n) /\ (l < 0 -> d <= n * 2 ^ (- l)).
Proof.
  intros Hn Hd. unfold qlog2.
  pose proof (Z.log2_spec n Hn) as [Ha1 Ha2]. pose proof (Z.log2_spec d Hd) as [Hb1 Hb2].
  pose proof (Z.log2_nonneg n) as Ha0. pose proof (Z.log2_nonneg d) as Hb0.
  set (a := Z.log2 n) in *. set (b := Z.log2 d) in *.
  destruct (ge_pow2 n d (a - b)) eqn:E; cbn zeta.
  - unfold ge_pow2 in E. destruct (Z.leb_spec 0 (a - b)); apply Z.leb_le in E; split; intro; try lia.
  - clear E. split; intro Hl.
    + (* d * 2^(a-b-1) < 2^(b+1) * 2^(a-b-1) = 2^a <= n *)
      assert (H2 : 2 ^ Z.succ b * 2 ^ (a - b - 1) = 2 ^ a).
      { rewrite <- Z.pow_add_r by lia. f_equal. lia. }
      pose proof (pow2_pos (a - b - 1) Hl). nia.
    + assert (H2 : 2 ^ a * 2 ^ (- (a - b - 1)) = 2 ^ Z.succ b).
      { rewrite <- Z.pow_add_r by lia. f_equal. lia. }
      assert (0 < 2 ^ (- (a - b - 1))) by (apply pow2_pos; lia). nia.
Qed.

(* ceiling quotient: value and relative error, given P * dd <= nn *)
Lemma ceil_bounds nn dd P :
  0 < dd -> 0 <= nn -> 0 <= P -> P * dd <= nn ->
  let m := if nn mod dd =? 0 then nn / dd else nn / dd + 1 in
  nn <= m * dd /\ m * dd * P <= nn * (P + 1).
Proof.
  intros Hd Hn HP Hl. cbn zeta.
  pose proof (Z.div_mod nn dd ltac:(lia)) as E. pose proof (Z.mod_pos_bound nn dd Hd) as Hr.
  set (q := nn / dd) in *. set (r := nn mod dd) in *.
  destruct (Z.eqb_spec r 0) as [Hz | Hz].
  - assert (nn = q * dd) by lia. split; [lia | nia].
  - assert (Hm : (q + 1) * dd = nn - r + dd) by lia. split; [lia|].
    assert ((q + 1) * dd <= nn + dd) by lia. nia.
Qed.

(* One away-from-zero rounding of n/d to prec bits: the result (as a fraction N/D) is
   >= n/d and <= n/d * (1 + 2^(1-prec)). *)
Lemma round_away_spec prec neg n d :
  0 < n -> 0 < d -> 1 <= prec ->
  let '(N, D) := frac_of (round_q AwayFromZero prec neg n d) in
  0 < D /\ n * D <= N * d /\ N * d * 2 ^ (prec - 1) <= n * D * (2 ^ (prec - 1) + 1).
Proof.
  intros Hn Hd Hp. unfold round_q.
  pose proof (qlog2_spec n d Hn Hd) as HL. cbn zeta in HL.
  set (l := qlog2 n d) in *. set (P := 2 ^ (prec - 1)).
  assert (HP : 0 < P) by (apply pow2_pos; lia).
  set (e := l - (prec - 1)).
  unfold unscale. destruct (Z.leb_spec 0 e) as [He | He].
  - (* e >= 0 *)
    assert (Hl0 : 0 <= l) by lia. destruct HL as [HL _]. specialize (HL Hl0).
    assert (E2 : 2 ^ l = 2 ^ e * P).
    { unfold P. rewrite <- Z.pow_add_r by lia. f_equal. lia. }
    pose proof (pow2_pos e He) as Hpe.
    set (dd := d * 2 ^ e). assert (Hdd : 0 < dd) by (unfold dd; nia).
    assert (Hlow : P * dd <= n) by (unfold dd; rewrite E2 in HL; nia).
    pose proof (ceil_bounds n dd P Hdd ltac:(lia) ltac:(lia) Hlow) as [C1 C2]. cbn zeta in C1, C2.
    fold dd. rewrite div_eucl_eq. unfold round_inc.
    destruct (Z.eqb_spec (n mod dd) 0) as [Hz | Hz]; unfold frac_of; cbn [be bm];
      (destruct (Z.leb_spec 0 e); [| lia]); unfold dd in *; split; try lia; split; nia.
  - (* e < 0 *)
    assert (Hpe : 0 < 2 ^ (- e)) by (apply pow2_pos; lia).
    set (nn := n * 2 ^ (- e)). assert (Hnn : 0 < nn) by (unfold nn; nia).
    assert (Hlow : P * d <= nn).
    { unfold nn. destruct (Z.leb_spec 0 l) as [Hl0 | Hl0].
      - destruct HL as [HL _]. specialize (HL Hl0).
        assert (E2 : 2 ^ l * 2 ^ (- e) = P).
        { unfold P. rewrite <- Z.pow_add_r by lia. f_equal. lia. }
        pose proof (pow2_pos l Hl0). nia.
      - destruct HL as [_ HL]. specialize (HL Hl0).
        assert (E2 : 2 ^ (- l) * P = 2 ^ (- e)).
        { unfold P. rewrite <- Z.pow_add_r by lia. f_equal. lia. }
        rewrite <- E2. nia. }
    pose proof (ceil_bounds nn d P Hd ltac:(lia) ltac:(lia) Hlow) as [C1 C2]. cbn zeta in C1, C2.
    fold nn. rewrite div_eucl_eq. unfold round_inc.
    destruct (Z.eqb_spec (nn mod d) 0) as [Hz | Hz]; unfold frac_of; cbn [be bm];
      (destruct (Z.leb_spec 0 e); [lia |]); unfold nn in *; split; try lia; split; nia.
Qed.

Lemma frac_of_pos m e : 0 < m -> let '(N, D) := frac_of (BF m e) in 0 < N /\ 0 < D.
Proof.
  intro Hm. unfold frac_of; cbn [be bm]. destruct (Z.leb_spec 0 e).
  - pose proof (pow2_pos e ltac:(lia)). split; nia.
  - pose proof (pow2_pos (- e) ltac:(lia)). split; lia.
Qed.

Lemma frac_of_mul_int m e T :
  frac_of (BF (m * T) (e + 0)) = (fst (frac_of (BF m e)) * T, snd (frac_of (BF m e))).
Proof.
  unfold frac_of; cbn [be bm]. rewrite Z.add_0_r. destruct (0 <=? e); cbn [fst snd]; f_equal; ring.
Qed.

(* parse-side rounding of n/d, then multiplication by the integer T (rounded again), then truncation:
   the floor of the exact product, as long as the exact numerator stays far below 2^(2 prec). *)
Lemma trunc_mul_round prec neg n d T :
  0 < n -> 0 < d -> 0 < T -> 1 <= prec ->
  n * T * (2 * 2 ^ (prec - 1) + 1) < 2 ^ (prec - 1) * 2 ^ (prec - 1) ->
  bf_trunc (bf_mul AwayFromZero prec neg (round_q AwayFromZero prec neg n d) (BF T 0)) = (n * T) / d.
Proof.
  intros Hn Hd HT Hp Hb.
  pose proof (round_away_spec prec neg n d Hn Hd Hp) as S1.
  set (x := round_q AwayFromZero prec neg n d) in *.
  unfold bf_mul. cbn [bm be]. destruct x as [m e].  cbn [bm be].
  rewrite frac_of_mul_int.
  destruct (frac_of (BF m e)) as [N D] eqn:EF. cbn [fst snd].
  destruct S1 as (HD & L1 & U1).
  assert (HN : 0 < N) by nia.
  assert (HNT : 0 < N * T) by nia.
  pose proof (round_away_spec prec neg (N * T) D HNT HD Hp) as S2.
  set (y := round_q AwayFromZero prec neg (N * T) D) in *.
  unfold bf_trunc. destruct (frac_of y) as [N2 D2]. destruct S2 as (HD2 & L2 & U2).
  set (P := 2 ^ (prec - 1)) in *. assert (HP : 0 < P) by (apply pow2_pos; lia).
  set (A := n * T) in *. assert (HA : 0 < A) by (unfold A; nia).
  pose proof (Z.div_mod A d ltac:(lia)) as EA. pose proof (Z.mod_pos_bound A d Hd) as HrA.
  set (f := A / d) in *.
  assert (Hf0 : 0 <= f) by (apply Z.div_pos; lia).
  (* lower: f * D2 <= N2 *)
  assert (Low : A * D2 <= N2 * d).
  { (* n D <= N d  =>  n T D D2 <= N T d D2 ; N T D2 <= N2 D *)
    assert (A * D * D2 <= N * T * d * D2) by (unfold A; nia).
    assert (N * T * D2 * d <= N2 * D * d) by nia.
    assert (A * D2 * D <= N2 * d * D) by lia. nia. }
  assert (Lowf : f * D2 <= N2).
  { assert (f * d <= A) by lia. assert (f * d * D2 <= N2 * d) by nia. nia. }
  (* upper: N2 * d * P * P <= A * D2 * (P+1)^2 *)
  assert (Up : N2 * d * (P * P) <= A * D2 * ((P + 1) * (P + 1))).
  { assert (U2' : N2 * D * P * (d * P) <= N * T * D2 * (P + 1) * (d * P)) by (apply Z.mul_le_mono_nonneg_r; nia).
    assert (U1' : N * d * P * (T * D2 * (P + 1)) <= n * D * (P + 1) * (T * D2 * (P + 1))) by (apply Z.mul_le_mono_nonneg_r; nia).
    assert (N2 * d * (P * P) * D <= A * D2 * ((P + 1) * (P + 1)) * D) by (unfold A; lia).
    nia. }
  assert (Upf : N2 < (f + 1) * D2).
  { assert (E1 : A * D2 * ((P + 1) * (P + 1)) = A * D2 * (P * P) + A * (2 * P + 1) * D2) by ring.
    assert (A * (2 * P + 1) * D2 < P * P * D2) by nia.
    assert (A + 1 <= (f + 1) * d) by lia.
    assert (N2 * d * (P * P) < (A + 1) * D2 * (P * P)) by lia.
    assert ((A + 1) * D2 * (P * P) <= (f + 1) * d * D2 * (P * P)) by nia.
    assert (N2 * (d * (P * P)) < (f + 1) * D2 * (d * (P * P))) by lia.
    assert (0 < d * (P * P)) by nia. nia. }
  symmetry. apply Z.div_unique with (r := N2 - f * D2); lia.
Qed.

(* ====================== B. digit strings ====================== *)

Definition digit (c : N) : Prop := is_digit c = true.
Definition horner_from (acc : Z) (l : bytes) : Z := fold_left (fun a c => a * 10 + dval c) l acc.

Lemma horner_is l : horner l = horner_from 0 l. Proof. reflexivity. Qed.

Lemma horner_from_app acc a b : horner_from acc (a ++ b) = horner_from (horner_from acc a) b.
Proof. unfold horner_from. apply fold_left_app. Qed.

Lemma digit_range c : digit c -> 0 <= dval c <= 9.
Proof.
  unfold digit, is_digit, dval. rewrite andb_true_iff, !N.leb_le. lia.
Qed.

Lemma horner_from_bounds l : Forall digit l -> forall acc, 0 <= acc ->
  acc * 10 ^ Z.of_nat (length l) <= horner_from acc l < (acc + 1) * 10 ^ Z.of_nat (length l).
Proof.
  induction 1 as [|c l Hc Hl IH]; intros acc Ha.
  - cbn. lia.
  - cbn [length horner_from fold_left]. change (fold_left _ l ?a) with (horner_from a l).
    pose proof (digit_range c Hc). specialize (IH (acc * 10 + dval c) ltac:(lia)).
    rewrite Nat2Z.inj_succ, Z.pow_succ_r by lia.
    assert (0 < 10 ^ Z.of_nat (length l)) by (apply Z.pow_pos_nonneg; lia). nia.
Qed.

Lemma horner_bounds l : Forall digit l -> 0 <= horner l < 10 ^ Z.of_nat (length l).
Proof. intro H. pose proof (horner_from_bounds l H 0 ltac:(lia)). rewrite horner_is. lia. Qed.

Lemma horner_from_shift l : forall acc,
  horner_from acc l = acc * 10 ^ Z.of_nat (length l) + horner_from 0 l.
Proof.
  induction l as [|c l IH]; intro acc.
  - cbn. lia.
  - cbn [length horner_from fold_left]. change (fold_left _ l ?a) with (horner_from a l).
    rewrite IH, (IH (0 * 10 + dval c)). rewrite Nat2Z.inj_succ, Z.pow_succ_r by lia. ring.
Qed.

Lemma horner_app a b : horner (a ++ b) = horner a * 10 ^ Z.of_nat (length b) + horner b.
Proof. rewrite !horner_is, horner_from_app, horner_from_shift. reflexivity. Qed.

Lemma horner_from_zeros k : horner_from 0 (zeros k) = 0.
Proof. induction k as [|k IH]; [reflexivity|]. cbn. exact IH. Qed.

Lemma zeros_digits k : Forall digit (zeros k).
Proof. apply Forall_forall. intros x Hx. apply repeat_spec in Hx. subst. reflexivity. Qed.

(* scan_digits takes exactly a digit block that is followed by a non-digit or the end *)
Definition stops (rest : bytes) : Prop := match rest with [] => True | c :: _ => is_digit c = false end.

Lemma scan_digits_block ds : Forall digit ds -> forall rest acc cnt, stops rest ->
  scan_digits (ds ++ rest) acc cnt = (horner_from acc ds, cnt + Z.of_nat (length ds), rest).
Proof.
  induction 1 as [|c ds Hc Hds IH]; intros rest acc cnt Hs.
  - cbn [app length horner_from fold_left]. rewrite Z.add_0_r.
    destruct rest as [|c r]; [reflexivity|]. cbn in Hs. cbn [scan_digits]. rewrite Hs. reflexivity.
  - cbn [app scan_digits]. unfold digit in Hc. rewrite Hc. rewrite IH by assumption.
    cbn [length horner_from fold_left]. rewrite Nat2Z.inj_succ. f_equal. f_equal. lia.
Qed.

(* ---- digits of a non-negative integer ---- *)
Lemma digit_of_mod n : 0 <= n -> digit (Z.to_N (48 + n mod 10)) /\ dval (Z.to_N (48 + n mod 10)) = n mod 10.
Proof.
  intro Hn. pose proof (Z.mod_pos_bound n 10 ltac:(lia)).
  unfold digit, is_digit, dval. rewrite andb_true_iff, !N.leb_le. lia.
Qed.

Lemma digits_fuel_spec f : forall n acc, 0 <= n -> n < 2 ^ Z.of_nat (S f) ->
  exists ds, digits_fuel (S f) n acc = ds ++ acc /\ Forall digit ds /\ horner ds = n /\ ds <> [].
Proof.
  induction f as [|f IH]; intros n acc Hn Hlt.
  - change (2 ^ Z.of_nat 1) with 2 in Hlt. cbn [digits_fuel]. rewrite div_eucl_eq.
    destruct (Z.ltb_spec n 10); [|lia].
    exists [Z.to_N (48 + n mod 10)]. destruct (digit_of_mod n Hn) as [D1 D2].
    repeat split; [constructor; [exact D1 | constructor] | | discriminate].
    unfold horner. cbn [fold_left]. rewrite D2. rewrite Z.mod_small; lia.
  - set (g := S f) in *. cbn [digits_fuel]. rewrite div_eucl_eq. destruct (digit_of_mod n Hn) as [D1 D2].
    destruct (Z.ltb_spec n 10) as [Hs | Hs].
    + exists [Z.to_N (48 + n mod 10)].
      repeat split; [constructor; [exact D1 | constructor] | | discriminate].
      unfold horner. cbn [fold_left]. rewrite D2. rewrite Z.mod_small; lia.
    + assert (Hq : n / 10 < 2 ^ Z.of_nat g).
      { rewrite (Nat2Z.inj_succ g), Z.pow_succ_r in Hlt by lia.
        apply Z.div_lt_upper_bound; lia. }
      destruct (IH (n / 10) (Z.to_N (48 + n mod 10) :: acc) ltac:(apply Z.div_pos; lia) Hq)
        as (ds & E & Fd & Hv & Hne).
      exists (ds ++ [Z.to_N (48 + n mod 10)]). rewrite E, <- app_assoc. split; [reflexivity|].
      split; [apply Forall_app; split; [exact Fd | constructor; [exact D1 | constructor]]|].
      split.
      * rewrite horner_app, Hv. cbn [length]. unfold horner at 1. cbn [fold_left]. rewrite D2.
        change (10 ^ Z.of_nat 1) with 10. pose proof (Z.div_mod n 10 ltac:(lia)). lia.
      * destruct ds; discriminate.
Qed.

Lemma digits_spec n : 0 <= n -> Forall digit (digits n) /\ horner (digits n) = n /\ digits n <> [].
Proof.
  intro Hn. unfold digits.
  assert (Hlt : n < 2 ^ Z.of_nat (S (Z.to_nat (Z.log2 n)))).
  { rewrite Nat2Z.inj_succ, Z2Nat.id by apply Z.log2_nonneg.
    destruct (Z.eq_dec n 0) as [-> | Hz]; [cbn; lia|].
    apply Z.log2_spec. lia. }
  destruct (digits_fuel_spec _ n [] Hn Hlt) as (ds & E & Fd & Hv & Hne).
  rewrite E, app_nil_r. auto.
Qed.

(* ---- shape of the formatter output ---- *)
Definition sign_bytes (sg : option bool) : bytes :=
  match sg with None => [] | Some true => [45%N] | Some false => [43%N] end.
Definition sign_neg (sg : option bool) : bool := match sg with Some true => true | _ => false end.

(* sign? ip [ "." fp ] *)
Definition dec_string (sg : option bool) (ip fp : bytes) (dot : bool) : bytes :=
  sign_bytes sg ++ ip ++ (if dot then 46%N :: fp else []).

Lemma bigint_to_str_p_shape n p : 0 <= p ->
  exists ip fp,
    bigint_to_str_p n p = dec_string (if n <? 0 then Some true else None) ip fp (negb (p =? 0)) /\
    Forall digit ip /\ Forall digit fp /\ ip <> [] /\ Z.of_nat (length fp) = p /\
    horner (ip ++ fp) = Z.abs n.
Proof.
  intro Hp. unfold bigint_to_str_p. destruct (Z.ltb_spec p 0); [lia|].
  destruct (digits_spec (Z.abs n) ltac:(lia)) as (Fd & Hv & Hne).
  set (number := digits (Z.abs n)) in *.
  assert (Hlen : (1 <= length number)%nat) by (destruct number; [congruence | cbn; lia]).
  assert (Sg : (if n <? 0 then [45%N] else []) = sign_bytes (if n <? 0 then Some true else None))
    by (destruct (n <? 0); reflexivity).
  destruct (Z.leb_spec (Z.of_nat (length number)) p) as [Hle | Hgt].
  - (* padded *)
    exists [48%N], (zeros (Z.to_nat p - length number) ++ number).
    split.
    { unfold dec_string. rewrite Sg. destruct (Z.eqb_spec p 0) as [-> | Hp0]; [lia|]. reflexivity. }
    split; [constructor; [reflexivity | constructor]|].
    split; [apply Forall_app; split; [apply zeros_digits | exact Fd]|].
    split; [discriminate|].
    split; [rewrite app_length; unfold zeros; rewrite repeat_length; lia|].
    rewrite horner_is, !horner_from_app. cbn [horner_from fold_left].
    change (0 * 10 + dval 48) with 0. rewrite horner_from_zeros. exact Hv.
  - (* split *)
    exists (firstn (length number - Z.to_nat p) number), (skipn (length number - Z.to_nat p) number).
    split.
    { unfold dec_string. rewrite Sg. destruct (Z.eqb_spec p 0) as [-> | Hp0]; cbn [negb].
      - change (Z.to_nat 0) with 0%nat. rewrite Nat.sub_0_r, firstn_all. cbn [Z.eqb negb]. rewrite app_nil_r. reflexivity.
      - reflexivity. }
    pose proof (firstn_skipn (length number - Z.to_nat p) number) as FS.
    assert (Fd' := Fd). rewrite <- FS in Fd'. apply Forall_app in Fd' as [F1 F2].
    split; [exact F1|]. split; [exact F2|].
    split.
    { intro E. apply (f_equal (@length N)) in E. rewrite firstn_length in E. cbn [length] in E. lia. }
    split; [rewrite skipn_length; lia|].
    rewrite FS. exact Hv.
Qed.

(* ---- the parser on sign? digits [ "." digits ] ---- *)
Lemma is_inf_word_nonletter c r : c <> 73%N -> c <> 105%N -> is_inf_word (c :: r) = false.
Proof.
  intros H1 H2. unfold is_inf_word. cbn [bytes_eqb].
  apply N.eqb_neq in H1, H2. rewrite H1, H2. reflexivity.
Qed.

Lemma digit_facts c : digit c -> c <> 45%N /\ c <> 43%N /\ c <> 73%N /\ c <> 105%N /\ c <> 46%N.
Proof. unfold digit, is_digit. rewrite andb_true_iff, !N.leb_le. lia. Qed.

Lemma parse_decimal sg ip fp dot :
  Forall digit ip -> Forall digit fp -> ip ++ fp <> [] -> (dot = false -> fp = []) ->
  parse_number (dec_string sg ip fp dot) =
  Ok (NFin (sign_neg sg) (horner (ip ++ fp)) (Z.of_nat (length fp)) 10 0).
Proof.
  intros Fi Ff Hne Hdot. unfold dec_string.
  set (tail := if dot then 46%N :: fp else []).
  assert (Hstop : stops tail) by (unfold tail; destruct dot; cbn; reflexivity).
  (* the first character after the sign is a digit or the dot *)
  assert (Hhead : exists c r, ip ++ tail = c :: r /\ c <> 45%N /\ c <> 43%N /\ c <> 73%N /\ c <> 105%N).
  { destruct ip as [|c ip'].
    - destruct dot.
      + exists 46%N, fp. cbn. repeat split; lia.
      + rewrite (Hdot eq_refl) in Hne. contradiction.
    - exists c, (ip' ++ tail). inversion Fi; subst. destruct (digit_facts c) as (?&?&?&?&?); auto. }
  destruct Hhead as (c & r & Ecr & Hc1 & Hc2 & Hc3 & Hc4).
  unfold parse_number.
  assert (Es : scan_sign (sign_bytes sg ++ ip ++ tail) = (sign_neg sg, ip ++ tail)).
  { destruct sg as [[|]|]; cbn [sign_bytes app scan_sign sign_neg]; try reflexivity.
    rewrite Ecr. cbn [scan_sign]. apply N.eqb_neq in Hc1, Hc2. rewrite Hc1, Hc2. reflexivity. }
  rewrite Es. rewrite Ecr at 1. rewrite (is_inf_word_nonletter c r Hc3 Hc4).
  unfold scan_mantissa. rewrite (scan_digits_block ip Fi tail 0 0 Hstop).
  unfold tail. destruct dot.
  - change (46 =? 46)%N with true. cbn iota.
    pose proof (scan_digits_block fp Ff [] (horner_from 0 ip) 0 I) as E2. rewrite app_nil_r in E2.
    rewrite E2. rewrite !Z.add_0_l.
    destruct (Z.eqb_spec (Z.of_nat (length ip) + Z.of_nat (length fp)) 0) as [Hz | Hz].
    + exfalso. apply Hne. destruct ip; [destruct fp; [reflexivity | cbn [length] in Hz; lia] | cbn [length] in Hz; lia].
    + cbn [scan_exponent]. change (horner (ip ++ fp)) with (horner_from 0 (ip ++ fp)).
      rewrite horner_from_app. reflexivity.
  - rewrite (Hdot eq_refl) in *. rewrite app_nil_r in *.
    rewrite !Z.add_0_l.
    destruct (Z.eqb_spec (Z.of_nat (length ip)) 0) as [Hz | Hz].
    + exfalso. apply Hne. destruct ip; [reflexivity | cbn [length] in Hz; lia].
    + cbn [scan_exponent length Z.of_nat]. reflexivity.
Qed.

(* ====================== C. composition ====================== *)

Lemma pow5_small p k : 0 <= k <= 27 -> pow5 p k = BF (5 ^ k) 0.
Proof. intro H. unfold pow5. destruct (Z.leb_spec k 27); [reflexivity | lia]. Qed.

Definition P512 : Z := 2 ^ (code_prec - 1).

(* value of an accepted decimal string: floor (M * 10^dd / 10^k), sign applied afterwards *)
Lemma str_value sg ip fp dot dd :
  Forall digit ip -> Forall digit fp -> ip ++ fp <> [] -> (dot = false -> fp = []) ->
  0 <= dd -> (length fp <= 27)%nat ->
  horner (ip ++ fp) * 10 ^ dd * (2 * P512 + 1) < P512 * P512 ->
  str_to_bigint_d (dec_string sg ip fp dot) dd =
  Ok (let t := horner (ip ++ fp) * 10 ^ dd / 10 ^ Z.of_nat (length fp) in
      if sign_neg sg then - t else t).
Proof.
  intros Fi Ff Hne Hdot Hdd Hk Hb.
  unfold str_to_bigint_d, str_to_bigint_gen.
  destruct (dec_string sg ip fp dot) as [|c0 s0] eqn:Es.
  { exfalso. unfold dec_string in Es. destruct sg as [[|]|]; cbn in Es; try discriminate.
    destruct ip; [|discriminate]. destruct dot; [discriminate|]. rewrite (Hdot eq_refl) in Hne. auto. }
  rewrite <- Es. rewrite (parse_decimal sg ip fp dot Fi Ff Hne Hdot).
  set (M := horner (ip ++ fp)) in *. set (k := Z.of_nat (length fp)).
  assert (HM : 0 <= M).
  { unfold M. apply horner_bounds. apply Forall_app; split; assumption. }
  assert (Hk' : 0 <= k <= 27) by (unfold k; lia).
  assert (H10 : 0 < 10 ^ k) by (apply Z.pow_pos_nonneg; lia).
  assert (HT : 0 < 10 ^ dd) by (apply Z.pow_pos_nonneg; lia).
  unfold float_of_number.
  destruct (Z.eqb_spec M 0) as [HM0 | HM0].
  { rewrite HM0. cbn [Z.mul]. rewrite Z.div_0_l by lia. destruct (sign_neg sg); reflexivity. }
  assert (HMp : 0 < M) by lia.
  change (10 =? 10) with true. cbn iota.
  unfold pow10. destruct (Z.ltb_spec dd 0); [lia|].
  assert (Hprec : 1 <= code_prec) by (unfold code_prec; lia).
  fold P512 in Hb.
  destruct (Z.eqb_spec (0 - k) 0) as [Hk0 | Hk0].
  - (* no fractional digits: Float.round of the mantissa *)
    assert (k = 0) by lia. replace (0 - k) with 0 by lia.
    unfold frac_of at 1. cbn [be bm]. change (0 <=? 0) with true. cbn iota.
    change (2 ^ 0) with 1. rewrite Z.mul_1_r. unfold code_mode.
    rewrite (trunc_mul_round code_prec (sign_neg sg) M 1 (10 ^ dd)); try lia.
    + rewrite H0. change (10 ^ 0) with 1. reflexivity.
    + unfold P512 in Hb. lia.
  - destruct (Z.ltb_spec (0 - k) 0) as [Hneg | Hpos]; [|lia].
    replace (- (0 - k)) with k by lia. rewrite (pow5_small _ k Hk'). cbn [be bm].
    unfold frac_of at 1. cbn [be bm]. replace (0 - k - 0) with (- k) by lia.
    destruct (Z.leb_spec 0 (- k)); [lia|]. rewrite Z.opp_involutive.
    assert (E10 : 2 ^ k * 5 ^ k = 10 ^ k) by (rewrite <- Z.pow_mul_l; reflexivity).
    rewrite E10. unfold code_mode.
    rewrite (trunc_mul_round code_prec (sign_neg sg) M (10 ^ k) (10 ^ dd)); try lia.
    + reflexivity.
    + unfold P512 in Hb. lia.
Qed.

Definition bound450 : Z := 2 ^ 450.

Lemma bound450_ok dd M : 0 <= dd <= 18 -> 0 <= M < bound450 -> M * 10 ^ dd * (2 * P512 + 1) < P512 * P512.
Proof.
  intros Hd HM.
  assert (10 ^ dd <= 10 ^ 18) by (apply Z.pow_le_mono_r; lia).
  assert (0 < 10 ^ dd) by (apply Z.pow_pos_nonneg; lia).
  assert (K : bound450 * 10 ^ 18 * (2 * P512 + 1) < P512 * P512) by (vm_compute; reflexivity).
  assert (M * 10 ^ dd <= bound450 * 10 ^ 18) by nia.
  assert (0 < 2 * P512 + 1) by (vm_compute; reflexivity).
  nia.
Qed.

Lemma sign_of_abs n t : t = Z.abs n -> (if sign_neg (if n <? 0 then Some true else None) then - t else t) = n.
Proof. intros ->. destruct (Z.ltb_spec n 0); cbn; lia. Qed.

(* formatter output parsed back with dd decimals *)
Lemma format_parse n p dd : 0 <= p <= 27 -> 0 <= dd <= 18 -> Z.abs n < bound450 ->
  str_to_bigint_d (bigint_to_str_p n p) dd =
  Ok (let t := Z.abs n * 10 ^ dd / 10 ^ p in if n <? 0 then - t else t).
Proof.
  intros Hp Hdd Hn.
  destruct (bigint_to_str_p_shape n p ltac:(lia)) as (ip & fp & E & Fi & Ff & Hne & Hl & Hv).
  rewrite E. rewrite str_value; try assumption; try lia.
  - rewrite Hv, Hl. destruct (n <? 0); reflexivity.
  - destruct ip; [congruence | discriminate].
  - intro Hd. apply negb_false_iff in Hd. apply Z.eqb_eq in Hd. destruct fp; [reflexivity | cbn in Hl; lia].
  - rewrite Hv. apply bound450_ok; lia.
Qed.

Lemma roundtrip n : Z.abs n < bound450 -> str_to_bigint (bigint_to_str n) = Ok n.
Proof.
  intro Hn. unfold bigint_to_str, str_to_bigint. destruct (Z.eqb_spec n 0) as [-> | Hz].
  - vm_compute. reflexivity.
  - unfold default_decimal. rewrite format_parse by lia. cbn zeta.
    rewrite Z.div_mul by lia. f_equal. destruct (Z.ltb_spec n 0); lia.
Qed.

Lemma parse_exact sg ip fp dot :
  Forall digit ip -> Forall digit fp -> ip ++ fp <> [] -> (dot = false -> fp = []) ->
  (length ip <= 78)%nat -> (length fp <= 18)%nat ->
  str_to_bigint (dec_string sg ip fp dot) =
  Ok (let v := horner ip * 10 ^ 18 + horner fp * 10 ^ (18 - Z.of_nat (length fp)) in
      if sign_neg sg then - v else v).
Proof.
  intros Fi Ff Hne Hdot Hli Hlf. unfold str_to_bigint, default_decimal.
  set (k := Z.of_nat (length fp)).
  assert (HM : 0 <= horner (ip ++ fp) < 10 ^ 96).
  { pose proof (horner_bounds (ip ++ fp) ltac:(apply Forall_app; split; assumption)) as HB.
    rewrite app_length in HB.
    assert (10 ^ Z.of_nat (length ip + length fp) <= 10 ^ 96) by (apply Z.pow_le_mono_r; lia). lia. }
  rewrite str_value; try assumption; try lia.
  - cbn zeta. fold k. f_equal.
    assert (E : horner (ip ++ fp) * 10 ^ 18 / 10 ^ k = horner ip * 10 ^ 18 + horner fp * 10 ^ (18 - k)).
    { rewrite horner_app. fold k.
      assert (E18 : 10 ^ 18 = 10 ^ (18 - k) * 10 ^ k) by (rewrite <- Z.pow_add_r by lia; f_equal; lia).
      assert (0 < 10 ^ k) by (apply Z.pow_pos_nonneg; lia).
      rewrite E18 at 1. rewrite Z.mul_assoc, Z.div_mul by lia. rewrite E18. ring. }
    rewrite E. reflexivity.
  - assert (K : 10 ^ 96 * 10 ^ 18 * (2 * P512 + 1) < P512 * P512) by (vm_compute; reflexivity).
    assert (0 < 2 * P512 + 1) by (vm_compute; reflexivity). nia.
Qed.

Lemma rescale_erc20 n d : 0 <= d <= 18 -> Z.abs n < bound450 ->
  format_erc20 n d = Ok (Z.quot n (10 ^ (18 - d))).
Proof.
  intros Hd Hn. unfold format_erc20. destruct (Z.eqb_spec n 0) as [-> | Hz].
  - rewrite Z.quot_0_l; [reflexivity|]. apply Z.pow_nonzero; lia.
  - unfold bigint_to_str. destruct (Z.eqb_spec n 0); [lia|]. unfold default_decimal.
    rewrite format_parse by lia. cbn zeta. f_equal.
    assert (E18 : 10 ^ 18 = 10 ^ (18 - d) * 10 ^ d) by (rewrite <- Z.pow_add_r by lia; f_equal; lia).
    assert (0 < 10 ^ d) by (apply Z.pow_pos_nonneg; lia).
    assert (0 < 10 ^ (18 - d)) by (apply Z.pow_pos_nonneg; lia).
    rewrite E18, Z.div_mul_cancel_r by lia.
    destruct (Z.ltb_spec n 0).
    + rewrite <- (Z.opp_involutive n) at 2. rewrite Z.quot_opp_l by lia.
      rewrite Z.quot_div_nonneg by lia. f_equal. f_equal. lia.
    + rewrite Z.quot_div_nonneg by lia. f_equal. lia.
Qed.

Lemma rescale_rocket n d : 0 <= d <= 18 -> Z.abs n < bound450 ->
  format_rocket n d = Ok (n * 10 ^ (18 - d)).
Proof.
  intros Hd Hn. unfold format_rocket. destruct (Z.eqb_spec n 0) as [-> | Hz]; [reflexivity|].
  unfold str_to_bigint, default_decimal. rewrite format_parse by lia. cbn zeta. f_equal.
  assert (E18 : 10 ^ 18 = 10 ^ (18 - d) * 10 ^ d) by (rewrite <- Z.pow_add_r by lia; f_equal; lia).
  assert (0 < 10 ^ d) by (apply Z.pow_pos_nonneg; lia).
  rewrite E18, Z.mul_assoc, Z.div_mul by lia.
  destruct (Z.ltb_spec n 0); lia.
Qed.

Lemma rescale_id n : Z.abs n < bound450 -> format_erc20 n 18 = Ok n /\ format_rocket n 18 = Ok n.
Proof.
  intro Hn. rewrite rescale_erc20, rescale_rocket by lia. change (18 - 18) with 0.
  change (10 ^ 0) with 1. rewrite Z.quot_1_r, Z.mul_1_r. auto.
Qed.
