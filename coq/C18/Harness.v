(* Evaluation of the C18 model on harness-written cases (correspondence check). *)
From Coq Require Import List NArith ZArith String Bool.
From V.Base Require Import Hex.
From V.C18 Require Import Model Ledger Sites.
Import ListNotations.
Local Open Scope Z_scope.

(* big integers travel as big-endian hex strings (decimal literals of 100+ digits parse slowly) *)
Definition zp (h : string) : Z := fold_left (fun a b => a * 256 + Z.of_N b) (unhex h) 0.
Definition zn (h : string) : Z := - zp h.

Inductive obs := OOk (z : Z) | OErr (code : Z).
Inductive ftobs := FOk (slot_after ret : Z) (ok : bool) (ledger : Z) | FPanic.

Inductive case :=
| CParse (h : string) (d : Z) (o : obs)        (* strToBigInt(s, d) *)
| CStr (n : Z) (p : Z) (h : string)            (* bigIntToStr(n, p) *)
| CBStr (n : Z) (h : string)                   (* BigIntToStr(n) *)
| CErc (n : Z) (d : Z) (o : obs)               (* FormatDecimalForERC20(n, d) *)
| CRocket (n : Z) (d : Z) (o : obs)            (* FormatDecimalForRocket(n, d) *)
| CBind (pos dec : Z) (rawP rawD : string) (found : bool) (gotPos gotDec : Z)   (* AddERC20Binding(pos, dec); stored entries p, d; GetERC20Binding *)
| CBindSys (is_sub : bool) (gotPos gotDec : Z)                                 (* GetERC20Binding("SYSTEM-RPG") *)
| CFT (dstored slot op n : Z) (o : ftobs)                                      (* Get/Set/Add/SubFT on a coin bound with dstored decimals *)
| CSite (s : string)                                                           (* one call site of the conversion functions found in the Go sources *)
| CSiteCount (n : Z)
| CSum (hs : list string) (total : Z)                                          (* amounts of one target list; total moved *)
| CConst (prec md pbase dec base : Z).         (* constants read from the Go source: ParseFloat(s, pbase, prec, md), defaultDecimal, baseNumber *)

(* account database, ERC20-bound coins (Ledger.v) *)
Definition op_of (c : Z) : ftop := if c =? 0 then OpGet else if c =? 1 then OpSet else if c =? 2 then OpAdd else OpSub.

Definition check_bind (pos dec : Z) (rawP rawD : string) (found : bool) (gotPos gotDec : Z) : bool :=
  let '(_, ep, ed) := encode_binding (Binding [] pos dec) in
  let b := decode_binding [] (unhex rawP) (unhex rawD) in
  found && bytes_eqb ep (unhex rawP) && bytes_eqb ed (unhex rawD) &&
  (b_position b =? gotPos) && (b_decimal b =? gotDec) && (gotPos =? pos) && (gotDec =? dec).

Definition check_ft (dstored slot op n : Z) (o : ftobs) : bool :=
  match ft_step dstored slot (op_of op) n, o with
  | Ok (s', r, k), FOk sa ret ok ledger =>
      (s' =? sa) && (r =? ret) && Bool.eqb k ok &&
      match ledger_view dstored s' with Ok l => l =? ledger | Err _ => false end
  | Err EUnsupported, _ => true
  | _, _ => false
  end.

Definition mode_code (m : mode) : Z :=
  match m with ToNearestEven => 0 | ToNearestAway => 1 | ToZero => 2 | AwayFromZero => 3 | ToNegativeInf => 4 | ToPositiveInf => 5 end.

Definition chk_res (r : res Z) (o : obs) : bool :=
  match r, o with
  | Ok a, OOk b => a =? b
  | Err EUnsupported, _ => true     (* outside the modelled exponent range: harness counts these separately *)
  | Err e, OErr c => err_code e =? c
  | _, _ => false
  end.

Definition check (c : case) : bool :=
  match c with
  | CParse h d o => chk_res (str_to_bigint_d (unhex h) d) o
  | CStr n p h => bytes_eqb (bigint_to_str_p n p) (unhex h)
  | CBStr n h => bytes_eqb (bigint_to_str n) (unhex h)
  | CErc n d o => chk_res (format_erc20 n d) o
  | CRocket n d o => chk_res (format_rocket n d) o
  | CBind pos dec rawP rawD found gotPos gotDec => check_bind pos dec rawP rawD found gotPos gotDec
  | CBindSys is_sub gotPos gotDec =>
      let b := system_binding is_sub [] in (b_position b =? gotPos) && (b_decimal b =? gotDec)
  | CFT dstored slot op n o => check_ft dstored slot op n o
  | CSite s => existsb (String.eqb s) covered_sites
  | CSum hs total =>
      match fold_left (fun acc h => match acc, str_to_bigint (unhex h) with Some a, Ok v => Some (a + v) | _, _ => None end) hs (Some 0) with
      | Some t => t =? total | None => false end
  | CSiteCount n => n =? Z.of_nat (List.length covered_sites)
  | CConst prec md pbase dec base =>
      (prec =? code_prec) && (md =? mode_code code_mode) && (pbase =? 10) && (dec =? default_decimal) && (base =? 10 ^ default_decimal)
  end.
