(* C18 proofs, part 3: the account database's bound coins (Ledger.v): the binding record round-trips
   (in particular a decimal count of 0 is read back as 0), and Set/Get/Add/Sub on a coin bound with d
   decimals obey the re-scaling laws of Proofs/Proofs2. *)
From Coq Require Import List NArith ZArith Lia Bool.
From V.Base Require Import Hex.
From V.C18 Require Import Model Proofs Proofs2 Ledger.
Import ListNotations.
Local Open Scope Z_scope.

Lemma be_val_snoc l b : be_val (l ++ [b]) = be_val l * 256 + Z.of_N b.
Proof. unfold be_val. rewrite fold_left_app. reflexivity. Qed.

Lemma be_bytes_length k : forall n, length (be_bytes k n) = k.
Proof. induction k as [|k IH]; intro n; [reflexivity|]. cbn [be_bytes]. rewrite app_length, IH. cbn. lia. Qed.

Lemma be_val_bytes k : forall n, 0 <= n -> be_val (be_bytes k n) = n mod 256 ^ Z.of_nat k.
Proof.
  induction k as [|k IH]; intros n Hn.
  - cbn. rewrite Z.mod_1_r. reflexivity.
  - cbn [be_bytes]. rewrite be_val_snoc, IH by (apply Z.div_pos; lia).
    pose proof (Z.mod_pos_bound n 256 ltac:(lia)).
    rewrite Z2N.id by lia.
    rewrite Nat2Z.inj_succ, Z.pow_succ_r by lia.
    assert (0 < 256 ^ Z.of_nat k) by (apply Z.pow_pos_nonneg; lia).
    rewrite (Z.rem_mul_r n 256 (256 ^ Z.of_nat k)) by lia. ring.
Qed.

Lemma u64_roundtrip n : 0 <= n < 2 ^ 64 -> dec_u64 (enc_u64 n) = n /\ length (enc_u64 n) = 8%nat.
Proof.
  intro Hn. unfold dec_u64, enc_u64. rewrite be_bytes_length. split; [|reflexivity].
  change (8 <? 8)%nat with false. cbn iota.
  rewrite <- (be_bytes_length 8 n) at 1. rewrite firstn_all.
  rewrite be_val_bytes by lia. apply Z.mod_small. change (256 ^ Z.of_nat 8) with (2 ^ 64). lia.
Qed.

(* ByteToUInt64 of a missing / short entry is 0 *)
Lemma dec_u64_short b : (length b < 8)%nat -> dec_u64 b = 0.
Proof. intro H. unfold dec_u64. destruct (Nat.ltb_spec (length b) 8); [reflexivity | lia]. Qed.

Lemma binding_roundtrip b : 0 <= b_position b < 2 ^ 64 -> 0 <= b_decimal b < 2 ^ 64 ->
  let '(c, p, d) := encode_binding b in decode_binding c p d = b.
Proof.
  intros Hp Hd. destruct b as [c p d]. unfold encode_binding, decode_binding. cbn [b_contract b_position b_decimal] in *. cbv beta iota.
  destruct (u64_roundtrip p Hp) as [-> _]. destruct (u64_roundtrip d Hd) as [-> _]. reflexivity.
Qed.

Lemma to_int64_small d : 0 <= d <= 18 -> to_int64 d = d.
Proof. intro H. unfold to_int64. destruct (Z.ltb_spec d (2 ^ 63)); [reflexivity|]. assert (18 < 2 ^ 63) by reflexivity. lia. Qed.

Lemma pow_scale d : 0 <= d <= 18 -> 0 < 10 ^ (18 - d).
Proof. intro. apply Z.pow_pos_nonneg; lia. Qed.

(* SetFT then the ledger view: the amount rounded down to a multiple of 10^(18-d) *)
Lemma set_then_view d slot n : 0 <= d <= 18 -> 0 <= n < bound450 ->
  ft_step d slot OpSet n = Ok (n / 10 ^ (18 - d), 0, true) /\
  ledger_view d (n / 10 ^ (18 - d)) = Ok (n - n mod 10 ^ (18 - d)).
Proof.
  intros Hd Hn. pose proof (pow_scale d Hd) as Hs. set (s := 10 ^ (18 - d)) in *.
  assert (Hq : 0 <= n / s) by (apply Z.div_pos; lia).
  assert (Hqs : n / s * s <= n) by (rewrite Z.mul_comm; apply Z.mul_div_le; lia).
  unfold ft_step, ledger_view. rewrite to_int64_small by assumption.
  rewrite rescale_erc20 by (try assumption; lia). fold s. rewrite Z.quot_div_nonneg by lia.
  rewrite Z.abs_eq by assumption. split; [reflexivity|].
  rewrite rescale_rocket_sharp; try assumption.
  - fold s. f_equal. pose proof (Z.div_mod n s ltac:(lia)). lia.
  - fold s. rewrite Z.abs_eq by assumption.
    assert (bound450 < bound510) by (vm_compute; reflexivity). lia.
Qed.

(* GetFT then SetFT of what was read: the slot is unchanged, for every decimal count 0..18 *)
Lemma get_then_set d slot' m : 0 <= d <= 18 -> 0 <= m -> m * 10 ^ (18 - d) < bound450 ->
  ft_step d m OpGet 0 = Ok (m, m * 10 ^ (18 - d), true) /\
  ft_step d slot' OpSet (m * 10 ^ (18 - d)) = Ok (m, 0, true).
Proof.
  intros Hd Hm Hb. pose proof (pow_scale d Hd) as Hs. set (s := 10 ^ (18 - d)) in *.
  assert (bound450 < bound510) by (vm_compute; reflexivity).
  unfold ft_step. rewrite to_int64_small by assumption. split.
  - rewrite rescale_rocket_sharp; try assumption; [reflexivity|]. fold s. rewrite Z.abs_eq by lia. lia.
  - rewrite rescale_erc20; try assumption.
    + fold s. rewrite Z.quot_mul by lia. rewrite Z.abs_eq by lia. reflexivity.
    + rewrite Z.abs_eq by nia. exact Hb.
Qed.

(* with 18 decimals nothing is re-scaled: Set / Add / Sub act on the slot as on the ledger amount *)
Lemma ops_at_18 slot n : 0 <= slot < bound510 -> 0 <= n < bound510 -> slot + n < bound510 ->
  ft_step 18 slot OpGet 0 = Ok (slot, slot, true) /\
  ft_step 18 slot OpSet n = Ok (n, 0, true) /\
  ft_step 18 slot OpAdd n = Ok (slot + n, 0, true) /\
  ft_step 18 slot OpSub n = (if slot <? n then Ok (slot, slot, false) else Ok (slot - n, slot - n, true)) /\
  ledger_view 18 slot = Ok slot.
Proof.
  intros Hs Hn Hsn. unfold ft_step, ledger_view. change (to_int64 18) with 18.
  destruct (rescale_id_sharp slot ltac:(lia)) as [_ Rs]. destruct (rescale_id_sharp n ltac:(lia)) as [En _].
  rewrite Rs, En. rewrite (Z.abs_eq n), (Z.abs_eq (slot + n)) by lia.
  repeat split.
  destruct (Z.ltb_spec slot n); [reflexivity|].
  destruct (rescale_id_sharp (slot - n) ltac:(lia)) as [_ Rd]. rewrite Rd, Z.abs_eq by lia. reflexivity.
Qed.
