(* C18 model, part 2: the account database's ERC20-bound coins (src/storage/account/accountdb_eth.go and
   accountdb_tuntun.go).  A coin name bound to a token contract keeps its balances in the contract's
   storage slot keccak(pad32(addr) ++ pad32(position)) in the TOKEN's unit; every ledger-side access
   re-scales with FormatDecimalForERC20 / FormatDecimalForRocket (Model.v).

   Binding record (AddERC20Binding / GetERC20Binding): three data entries under the binding address,
     "c" -> contract.Bytes() (20 bytes), "p" -> utility.UInt64ToByte(position), "d" -> utility.UInt64ToByte(decimal)
   UInt64ToByte = 8 bytes big endian; ByteToUInt64 = binary.Read of 8 bytes (error ignored: a buffer
   shorter than 8 bytes leaves 0).  A stored decimal count of 0 is a legitimate value (a token without
   fractional units) and reads back as 0.  The system coin "SYSTEM-RPG" ignores the stored position and
   decimal: position 3 (4 on a sub chain), 18 decimals.
   The uint64 decimal count is cast with int64(decimal) before it reaches the formatter. *)
From Coq Require Import List NArith ZArith Lia Bool.
From V.Base Require Import Hex.
From V.C18 Require Import Model.
Import ListNotations.
Local Open Scope Z_scope.

(* ---------- utility.UInt64ToByte / ByteToUInt64 ---------- *)
Fixpoint be_bytes (k : nat) (n : Z) : bytes :=
  match k with O => [] | S k' => be_bytes k' (n / 256) ++ [Z.to_N (n mod 256)] end.
Definition be_val (l : bytes) : Z := fold_left (fun a b => a * 256 + Z.of_N b) l 0.

Definition enc_u64 (n : Z) : bytes := be_bytes 8 n.
Definition dec_u64 (b : bytes) : Z := if (length b <? 8)%nat then 0 else be_val (firstn 8 b).

Definition to_int64 (d : Z) : Z := if d <? 2 ^ 63 then d else d - 2 ^ 64.

(* ---------- binding record ---------- *)
Record binding := Binding { b_contract : bytes; b_position : Z; b_decimal : Z }.

(* the three stored entries (c, p, d) *)
Definition encode_binding (b : binding) : bytes * bytes * bytes :=
  (b_contract b, enc_u64 (b_position b), enc_u64 (b_decimal b)).

(* GetERC20Binding for an ordinary coin name, given the three stored entries *)
Definition decode_binding (c p d : bytes) : binding := Binding c (dec_u64 p) (dec_u64 d).

(* GetERC20Binding for the system coin: stored position / decimal are ignored *)
Definition system_binding (is_sub : bool) (c : bytes) : binding :=
  Binding c (if is_sub then 4 else 3) 18.

(* ---------- GetFT / SetFT / AddFT / SubFT on a bound coin ---------- *)
Inductive ftop := OpGet | OpSet | OpAdd | OpSub.

(* one operation: stored decimal count (uint64), slot content before (token units, >= 0: big.Int.SetBytes),
   ledger amount n; result: slot after, returned amount, returned flag.
   big.Int.Bytes() drops the sign, hence Z.abs on what is written. *)
Definition ft_step (dstored slot : Z) (op : ftop) (n : Z) : res (Z * Z * bool) :=
  let d := to_int64 dstored in
  match op with
  | OpGet => match format_rocket slot d with Ok v => Ok (slot, v, true) | Err e => Err e end
  | OpSet => match format_erc20 n d with Ok v => Ok (Z.abs v, 0, true) | Err e => Err e end
  | OpAdd => match format_erc20 n d with Ok v => Ok (Z.abs (slot + v), 0, true) | Err e => Err e end
  | OpSub =>
    match format_erc20 n d with
    | Err e => Err e
    | Ok v =>
      if slot <? v then Ok (slot, slot, false)          (* insufficient: returns the slot content unscaled *)
      else match format_rocket (slot - v) d with
           | Ok r => Ok (Z.abs (slot - v), r, true)
           | Err e => Err e
           end
    end
  end.

(* the ledger view of a slot: GetFT / GetBalance *)
Definition ledger_view (dstored slot : Z) : res Z := format_rocket slot (to_int64 dstored).
