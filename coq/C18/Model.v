(* C18 model: src/utility/data_convert.go (strToBigInt / bigIntToStr / FormatDecimalForERC20 /
   FormatDecimalForRocket) over integers only.

   Go's big.Float is modelled as a positive magnitude  m * 2^e  (m, e : Z) plus a sign bit; every
   big.Float operation the code performs is "compute the exact rational result, then round it once,
   correctly, to [prec] bits in the receiver's rounding mode" (math/big: Float.round with rounding and
   sticky bit; uquo passes the remainder as sticky bit, umul multiplies exactly).  What the code passes:
     big.ParseFloat(s, 10, prec = 512, big.AwayFromZero)
       Float.scan: sign, exact decimal mantissa M with k fractional digits, optional e/E (decimal) or
       p/P (binary) exponent; value M * 2^(x - k) * 5^(x10 - k); the power of two is applied exactly to
       the exponent, the power of five by ONE Quo/Mul with pow5(|x10 - k|) held at prec+64 bits
       (exact up to 5^27, then a square-and-multiply loop rounding to nearest even at prec+64 / prec+128);
       no power of five: Float.round of the exact mantissa.
     base := new(big.Float).SetInt(10^decimal)   -- precision max(bitlen,64): exact
     target.Mul(target, base)                    -- target keeps prec 512 and AwayFromZero
     target.Int(result)                          -- truncation toward zero; Inf leaves result = 0
   [prec] and [mode] are parameters of the model so that the theorems can show which choices matter;
   the code's values are [code_prec] and [code_mode]. *)
From Coq Require Import List NArith ZArith Lia Bool.
From V.Base Require Import Hex.
Import ListNotations.
Local Open Scope Z_scope.

(* ---------- big.Float rounding ---------- *)
Inductive mode := ToNearestEven | ToNearestAway | ToZero | AwayFromZero | ToNegativeInf | ToPositiveInf.

Definition code_prec : Z := 512.
Definition code_mode : mode := AwayFromZero.
Definition default_decimal : Z := 18.

(* positive magnitude m * 2^e *)
Record bf := BF { bm : Z; be : Z }.

(* the value of a float as a fraction (numerator, denominator) *)
Definition frac_of (x : bf) : Z * Z :=
  if 0 <=? be x then (bm x * 2 ^ be x, 1) else (bm x, 2 ^ (- be x)).

(* n / (d * 2^e) as a fraction *)
Definition unscale (n d e : Z) : Z * Z :=
  if 0 <=? e then (n, d * 2 ^ e) else (n * 2 ^ (- e), d).

(* does  d * 2^l <= n  hold *)
Definition ge_pow2 (n d l : Z) : bool :=
  if 0 <=? l then d * 2 ^ l <=? n else d <=? n * 2 ^ (- l).

(* floor (log2 (n / d)) for n, d > 0 *)
Definition qlog2 (n d : Z) : Z :=
  let l := Z.log2 n - Z.log2 d in
  if ge_pow2 n d l then l else l - 1.

(* Float.round: increment decision; q = truncated mantissa, r/d = discarded fraction in [0,1) *)
Definition round_inc (md : mode) (neg : bool) (q r d : Z) : bool :=
  if r =? 0 then false
  else match md with
       | ToZero => false
       | AwayFromZero => true
       | ToNegativeInf => neg
       | ToPositiveInf => negb neg
       | ToNearestEven => (d <? 2 * r) || ((2 * r =? d) && Z.odd q)
       | ToNearestAway => d <=? 2 * r
       end.

(* the [prec]-bit float nearest (in the sense of [md]) to the positive rational n/d *)
Definition round_q (md : mode) (prec : Z) (neg : bool) (n d : Z) : bf :=
  let e := qlog2 n d - (prec - 1) in
  let '(n', d') := unscale n d e in
  let '(q, r) := Z.div_eucl n' d' in
  BF (if round_inc md neg q r d' then q + 1 else q) e.

(* Float.Mul of two finite magnitudes, receiver precision/mode given *)
Definition bf_mul (md : mode) (prec : Z) (neg : bool) (x y : bf) : bf :=
  let '(n, d) := frac_of (BF (bm x * bm y) (be x + be y)) in round_q md prec neg n d.

(* Float.Int of a finite magnitude: truncation *)
Definition bf_trunc (x : bf) : Z := let '(n, d) := frac_of x in n / d.

(* Float.pow5 at precision p (receiver), helper at p + 64; both round to nearest even *)
Fixpoint pow5_loop (fuel : nat) (p : Z) (n : Z) (z f : bf) : bf :=
  match fuel with
  | O => z
  | S fu =>
    if n <=? 0 then z
    else let z' := if Z.odd n then bf_mul ToNearestEven p false z f else z in
         pow5_loop fu p (n / 2) z' (bf_mul ToNearestEven (p + 64) false f f)
  end.

Definition pow5 (p : Z) (n : Z) : bf :=
  if n <=? 27 then BF (5 ^ n) 0
  else pow5_loop 64 p (n - 27) (BF (5 ^ 27) 0) (BF 5 0).

(* ---------- Float.scan / Float.Parse for base 10 ---------- *)
Inductive perr := ENoDigits | ETrailing | EOther | EUnsupported.
Inductive res (A : Type) := Ok (a : A) | Err (e : perr).
Arguments Ok {A} a. Arguments Err {A} e.

Definition is_digit (c : N) : bool := ((48 <=? c) && (c <=? 57))%N.
Definition dval (c : N) : Z := Z.of_N c - 48.

(* longest digit prefix: accumulated value, number of digits, rest *)
Fixpoint scan_digits (l : bytes) (acc : Z) (cnt : Z) : Z * Z * bytes :=
  match l with
  | c :: r => if is_digit c then scan_digits r (acc * 10 + dval c) (cnt + 1) else (acc, cnt, l)
  | [] => (acc, cnt, [])
  end.

Definition horner (l : bytes) : Z := fold_left (fun a c => a * 10 + dval c) l 0.

Inductive number :=
| NInf                                   (* "Inf", "inf", with optional sign *)
| NFin (neg : bool) (M : Z) (k : Z) (ebase : Z) (ex : Z).   (* M * 10^-k * ebase^ex *)

Definition scan_sign (l : bytes) : bool * bytes :=
  match l with
  | c :: r => if (c =? 45)%N then (true, r) else if (c =? 43)%N then (false, r) else (false, l)
  | [] => (false, l)
  end.

(* nat.scan(r, 10, fracOk = true): digits [ "." digits ]; error when there is no digit at all *)
Definition scan_mantissa (l : bytes) : res (Z * Z * bytes) :=
  let '(m1, c1, r1) := scan_digits l 0 0 in
  let nofrac := if c1 =? 0 then Err ENoDigits else Ok (m1, 0, r1) in
  match r1 with
  | c :: r2 =>
    if (c =? 46)%N then
      let '(m2, c2, r3) := scan_digits r2 m1 0 in
      if c1 + c2 =? 0 then Err ENoDigits else Ok (m2, c2, r3)
    else nofrac
  | [] => nofrac
  end.

Definition max_exp_digits : Z := 6.   (* exponents beyond 6 digits: outside the model (EUnsupported) *)

(* scanExponent(r, base2ok = true, sepOk = false) *)
Definition scan_exponent (l : bytes) : res (Z * Z * bytes) :=
  match l with
  | c :: r =>
    let ebase := if ((c =? 101) || (c =? 69))%N then 10
                 else if ((c =? 112) || (c =? 80))%N then 2 else 0 in
    if ebase =? 0 then Ok (10, 0, l)
    else
      let '(eneg, r1) := scan_sign r in
      let '(v, cnt, r2) := scan_digits r1 0 0 in
      if cnt =? 0 then Err ENoDigits
      else if max_exp_digits <? cnt then Err EUnsupported
      else Ok (ebase, if eneg then - v else v, r2)
  | [] => Ok (10, 0, [])
  end.

Definition is_inf_word (l : bytes) : bool :=
  bytes_eqb l [73; 110; 102]%N || bytes_eqb l [105; 110; 102]%N.

(* Float.Parse(s, 10) *)
Definition parse_number (s : bytes) : res number :=
  let '(neg, r0) := scan_sign s in
  if is_inf_word r0 then Ok NInf   (* len 3 "Inf"/"inf", or len 4 with one sign in front *)
  else
    match scan_mantissa r0 with
    | Err e => Err e
    | Ok (M, k, r1) =>
      match scan_exponent r1 with
      | Err e => Err e
      | Ok (ebase, ex, r2) =>
        match r2 with
        | [] => Ok (NFin neg M k ebase ex)
        | _ :: _ => Err ETrailing
        end
      end
    end.

(* the finite Float the scan produces: None = zero *)
Definition float_of_number (md : mode) (prec : Z) (neg : bool) (M k ebase ex : Z) : option bf :=
  if M =? 0 then None
  else
    let exp2 := ex - k in
    let exp5 := (if ebase =? 10 then ex else 0) - k in
    if exp5 =? 0 then
      let '(n, d) := frac_of (BF M exp2) in Some (round_q md prec neg n d)
    else if exp5 <? 0 then
      let p := pow5 (prec + 64) (- exp5) in
      (* M * 2^exp2 / (pm * 2^pe) *)
      let '(n, d) := frac_of (BF M (exp2 - be p)) in Some (round_q md prec neg n (d * bm p))
    else
      let p := pow5 (prec + 64) exp5 in
      let '(n, d) := frac_of (BF (M * bm p) (exp2 + be p)) in Some (round_q md prec neg n d).

Definition pow10 (d : Z) : Z := if d <? 0 then 1 else 10 ^ d.   (* big.Int.Exp with a negative exponent yields 1 *)

(* strToBigInt(s, decimal) with the float precision and mode as parameters *)
Definition str_to_bigint_gen (md : mode) (prec : Z) (s : bytes) (decimal : Z) : res Z :=
  match s with
  | [] => Ok 0
  | _ =>
    match parse_number s with
    | Err e => Err e
    | Ok NInf => Ok 0                       (* Inf * base = Inf; Float.Int(Inf) leaves the zero result *)
    | Ok (NFin neg M k ebase ex) =>
      match float_of_number md prec neg M k ebase ex with
      | None => Ok 0
      | Some x =>
        let y := bf_mul md prec neg x (BF (pow10 decimal) 0) in
        let t := bf_trunc y in
        Ok (if neg then - t else t)
      end
    end
  end.

Definition str_to_bigint_d (s : bytes) (decimal : Z) : res Z := str_to_bigint_gen code_mode code_prec s decimal.
Definition str_to_bigint (s : bytes) : res Z := str_to_bigint_d s default_decimal.

(* ---------- formatting ---------- *)
(* decimal digits of n >= 0 (big.Int.String of the absolute value); "0" for 0 *)
Fixpoint digits_fuel (fuel : nat) (n : Z) (acc : bytes) : bytes :=
  match fuel with
  | O => acc
  | S f =>
    let '(q, r) := Z.div_eucl n 10 in
    let acc' := Z.to_N (48 + r) :: acc in
    if n <? 10 then acc' else digits_fuel f q acc'
  end.
Definition digits (n : Z) : bytes := digits_fuel (S (Z.to_nat (Z.log2 n))) n [].

Definition zeros (n : nat) : bytes := repeat 48%N n.

(* bigIntToStr(n, precision) *)
Definition bigint_to_str_p (n : Z) (p : Z) : bytes :=
  if p <? 0 then [48%N]
  else
    let starter := if n <? 0 then [45%N] else [] in
    let number := digits (Z.abs n) in
    let len := Z.of_nat (length number) in
    let pn := Z.to_nat p in
    let '(first, last) :=
      if len <=? p then ([48%N], zeros (pn - length number) ++ number)
      else (firstn (length number - pn) number, skipn (length number - pn) number) in
    if p =? 0 then starter ++ first else starter ++ first ++ [46%N] ++ last.

(* BigIntToStr *)
Definition bigint_to_str (n : Z) : bytes := if n =? 0 then [48%N] else bigint_to_str_p n default_decimal.

(* FormatDecimalForERC20 / FormatDecimalForRocket *)
Definition format_erc20 (n : Z) (decimal : Z) : res Z :=
  if n =? 0 then Ok 0 else str_to_bigint_d (bigint_to_str n) decimal.
Definition format_rocket (n : Z) (decimal : Z) : res Z :=
  if n =? 0 then Ok 0 else str_to_bigint (bigint_to_str_p n decimal).

Definition err_code (e : perr) : Z :=
  match e with ENoDigits => 1 | ETrailing => 2 | EOther => 3 | EUnsupported => 99 end.
