(* C18 — property theorems only (statements + [exact]); see Proofs.v and Proofs2.v for the proofs.
   Model: Model.v (strToBigInt = big.ParseFloat at 512 bits / AwayFromZero, one multiplication by
   10^decimals rounded the same way, truncation; bigIntToStr by digit-string splitting). *)
From Coq Require Import List NArith ZArith Lia.
From V.Base Require Import Hex.
From V.C18 Require Import Model Proofs Proofs2 Ledger LedgerProofs.
Import ListNotations.
Local Open Scope Z_scope.

(* Formatting an integer and parsing the string back returns the integer, for every |n| < 2^510
   (the EVM word / balance range |n| < 2^256 with a visible margin).  The bound is sharp within a factor
   of two: see C18_roundtrip_limit_refuted. *)
Theorem C18_roundtrip : forall n, Z.abs n < 2 ^ 510 -> str_to_bigint (bigint_to_str n) = Ok n.
Proof. exact roundtrip_sharp. Qed.
Print Assumptions C18_roundtrip.

Theorem C18_roundtrip_evm_word : forall n, - 2 ^ 256 < n < 2 ^ 256 -> str_to_bigint (bigint_to_str n) = Ok n.
Proof.
  intros n H. apply roundtrip_sharp. unfold bound510.
  assert (2 ^ 256 < 2 ^ 510) by (apply Z.pow_lt_mono_r; lia). lia.
Qed.
Print Assumptions C18_roundtrip_evm_word.

(* Outside the EVM range the 512-bit float does lose the value: 2^511 - 1 comes back as 2^511. *)
Theorem C18_roundtrip_limit_refuted :
  exists n, 0 <= n < 2 ^ 511 /\ str_to_bigint (bigint_to_str n) <> Ok n.
Proof.
  exists (2 ^ 511 - 1). split; [split; [vm_compute; discriminate | reflexivity]|].
  rewrite roundtrip_limit. vm_compute. discriminate.
Qed.
Print Assumptions C18_roundtrip_limit_refuted.

(* The formatter is injective on that range (two different amounts never print alike). *)
Theorem C18_format_injective : forall n m, Z.abs n < 2 ^ 510 -> Z.abs m < 2 ^ 510 ->
  bigint_to_str n = bigint_to_str m -> n = m.
Proof. exact format_injective. Qed.
Print Assumptions C18_format_injective.

(* A decimal string  sign? ip [ "." fp ]  with at most 78 integer digits and at most 18 fractional
   digits parses to exactly the integer it denotes in 18-decimal units: no binary rounding is visible. *)
Theorem C18_parse_exact : forall sg ip fp dot,
  Forall digit ip -> Forall digit fp -> ip ++ fp <> [] -> (dot = false -> fp = []) ->
  (length ip <= 78)%nat -> (length fp <= 18)%nat ->
  str_to_bigint (dec_string sg ip fp dot) =
  Ok (let v := horner ip * 10 ^ 18 + horner fp * 10 ^ (18 - Z.of_nat (length fp)) in
      if sign_neg sg then - v else v).
Proof. exact parse_exact. Qed.
Print Assumptions C18_parse_exact.

(* General value of an accepted decimal string with up to 27 fractional digits and any target
   decimal count: the exact quotient truncated toward zero (so 19..27 fractional digits truncate). *)
Theorem C18_parse_value : forall sg ip fp dot dd,
  Forall digit ip -> Forall digit fp -> ip ++ fp <> [] -> (dot = false -> fp = []) ->
  0 <= dd -> (length fp <= 27)%nat ->
  horner (ip ++ fp) * 10 ^ dd * (2 * 2 ^ 511 + 1) < 2 ^ 511 * 2 ^ 511 ->
  str_to_bigint_d (dec_string sg ip fp dot) dd =
  Ok (let t := horner (ip ++ fp) * 10 ^ dd / 10 ^ Z.of_nat (length fp) in
      if sign_neg sg then - t else t).
Proof. exact str_value. Qed.
Print Assumptions C18_parse_value.

(* Re-scaling between the ledger unit and a token with 18 decimals is the identity. *)
Theorem C18_rescale_id : forall n, Z.abs n < 2 ^ 510 ->
  format_erc20 n 18 = Ok n /\ format_rocket n 18 = Ok n.
Proof. exact rescale_id_sharp. Qed.
Print Assumptions C18_rescale_id.

(* Other decimal counts 0..18: ledger -> token truncates toward zero, token -> ledger is exact. *)
Theorem C18_rescale_erc20 : forall n d, 0 <= d <= 18 -> Z.abs n < 2 ^ 450 ->
  format_erc20 n d = Ok (Z.quot n (10 ^ (18 - d))).
Proof. exact rescale_erc20. Qed.
Print Assumptions C18_rescale_erc20.

Theorem C18_rescale_rocket : forall n d, 0 <= d <= 18 -> Z.abs n * 10 ^ (18 - d) < 2 ^ 510 ->
  format_rocket n d = Ok (n * 10 ^ (18 - d)).
Proof. exact rescale_rocket_sharp. Qed.
Print Assumptions C18_rescale_rocket.

(* The two directions composed as the account database composes them for a coin bound to an ERC20
   contract with d decimals (GetBalance = FormatDecimalForRocket of the stored word, SetBalance stores
   FormatDecimalForERC20): reading and writing back is the identity on the stored word; writing and
   reading back rounds the ledger amount toward zero to a multiple of 10^(18-d) -- identity for d = 18. *)
Theorem C18_token_ledger_token : forall m d, 0 <= d <= 18 -> Z.abs m * 10 ^ (18 - d) < 2 ^ 450 ->
  exists r, format_rocket m d = Ok r /\ format_erc20 r d = Ok m.
Proof. exact token_ledger_token. Qed.
Print Assumptions C18_token_ledger_token.

Theorem C18_ledger_token_ledger : forall n d, 0 <= d <= 18 -> Z.abs n < 2 ^ 450 ->
  exists t, format_erc20 n d = Ok t /\ format_rocket t d = Ok (n - Z.rem n (10 ^ (18 - d))).
Proof. exact ledger_token_ledger. Qed.
Print Assumptions C18_ledger_token_ledger.

(* The property's quantifier, literally: every EVM word, every token decimal count 0..18. *)
Theorem C18_rescale_evm_word : forall n d, 0 <= n < 2 ^ 256 -> 0 <= d <= 18 ->
  format_erc20 n d = Ok (n / 10 ^ (18 - d)) /\ format_rocket n d = Ok (n * 10 ^ (18 - d)).
Proof. exact rescale_evm_word. Qed.
Print Assumptions C18_rescale_evm_word.

(* A plain digit string (e.g. the STAKE opcode's strconv.FormatUint(stake)) denotes value * 10^18. *)
Theorem C18_parse_uint_string : forall ip, Forall digit ip -> ip <> [] -> (length ip <= 78)%nat ->
  str_to_bigint ip = Ok (horner ip * 10 ^ 18).
Proof. exact parse_uint_string. Qed.
Print Assumptions C18_parse_uint_string.

(* The precision as a parameter: with away-from-zero rounding every EVM word round-trips at every
   precision from 258 bits upward, and 257 bits are not enough -- the code's 512 leave a 254-bit margin. *)
Theorem C18_min_precision :
  (forall prec n, 258 <= prec -> - 2 ^ 256 < n < 2 ^ 256 ->
     str_to_bigint_gen AwayFromZero prec (bigint_to_str n) 18 = Ok n) /\
  (exists n, 0 <= n < 2 ^ 256 /\ str_to_bigint_gen AwayFromZero 257 (bigint_to_str n) 18 <> Ok n).
Proof.
  split; [exact roundtrip_evm_word_any_prec|].
  exists 115792089237316195423570985008687907853269984665640564039457584004966757132588.
  split; [split; [lia | reflexivity]|]. vm_compute. discriminate.
Qed.
Print Assumptions C18_min_precision.

(* Decimal exponent forms ("1e5", "1.5E-3"; big.ParseFloat accepts them and so does StrToBigInt): whenever
   the scan is M * 10^(ex-k) with |ex - k| <= 27 the result is exactly that value in dd-decimal units,
   truncated toward zero -- so "1e5" is 100000 tokens, and an exponent form denoting a number with at most
   18 fractional digits yields exactly the integer it denotes.  (Binary exponents 1p3, Inf, |ex-k| > 27 and
   exponents of more than 6 digits are modelled / correspondence-checked only.) *)
Theorem C18_exponent_value : forall s neg M k ex dd,
  s <> [] -> parse_number s = Ok (NFin neg M k 10 ex) ->
  0 < M -> -27 <= ex - k <= 27 -> 0 <= dd ->
  M * 10 ^ Z.max 0 (ex - k) * 10 ^ dd * (2 * 2 ^ 511 + 1) < 2 ^ 511 * 2 ^ 511 ->
  str_to_bigint_d s dd =
  Ok (let t := M * 10 ^ Z.max 0 (ex - k) * 10 ^ dd / 10 ^ Z.max 0 (k - ex) in if neg then - t else t).
Proof. exact exponent_value. Qed.
Print Assumptions C18_exponent_value.

(* ---- the account database's ERC20-bound coins (Ledger.v: accountdb_eth.go / accountdb_tuntun.go) ---- *)

(* The binding record (contract, position, decimal count) is read back as it was written, for every
   uint64 position and decimal count -- in particular a decimal count of 0 stays 0. *)
Theorem C18_binding_roundtrip : forall b, 0 <= b_position b < 2 ^ 64 -> 0 <= b_decimal b < 2 ^ 64 ->
  let '(c, p, d) := encode_binding b in decode_binding c p d = b.
Proof. exact binding_roundtrip. Qed.
Print Assumptions C18_binding_roundtrip.

(* With 18 decimals the bound coin's slot IS the ledger amount: Get/Set/Add/Sub re-scale nothing. *)
Theorem C18_ledger_identity_at_18 : forall slot n, 0 <= slot < 2 ^ 510 -> 0 <= n < 2 ^ 510 -> slot + n < 2 ^ 510 ->
  ft_step 18 slot OpGet 0 = Ok (slot, slot, true) /\
  ft_step 18 slot OpSet n = Ok (n, 0, true) /\
  ft_step 18 slot OpAdd n = Ok (slot + n, 0, true) /\
  ft_step 18 slot OpSub n = (if slot <? n then Ok (slot, slot, false) else Ok (slot - n, slot - n, true)) /\
  ledger_view 18 slot = Ok slot.
Proof. exact ops_at_18. Qed.
Print Assumptions C18_ledger_identity_at_18.

(* Every decimal count 0..18: SetFT stores the amount divided by 10^(18-d) (truncated) and the ledger then
   shows the amount rounded down to a multiple of 10^(18-d); GetFT followed by SetFT of what was read
   leaves the slot unchanged. *)
Theorem C18_ledger_set_then_view : forall d slot n, 0 <= d <= 18 -> 0 <= n < 2 ^ 450 ->
  ft_step d slot OpSet n = Ok (n / 10 ^ (18 - d), 0, true) /\
  ledger_view d (n / 10 ^ (18 - d)) = Ok (n - n mod 10 ^ (18 - d)).
Proof. exact set_then_view. Qed.
Print Assumptions C18_ledger_set_then_view.

Theorem C18_ledger_get_then_set : forall d slot' m, 0 <= d <= 18 -> 0 <= m -> m * 10 ^ (18 - d) < 2 ^ 450 ->
  ft_step d m OpGet 0 = Ok (m, m * 10 ^ (18 - d), true) /\
  ft_step d slot' OpSet (m * 10 ^ (18 - d)) = Ok (m, 0, true).
Proof. exact get_then_set. Qed.
Print Assumptions C18_ledger_get_then_set.

(* The error bound of one rounding that everything rests on: the away-from-zero rounding of n/d at
   precision p lies in [n/d, n/d * (1 + 2^(1-p))]. *)
Theorem C18_round_away_bounds : forall prec neg n d, 0 < n -> 0 < d -> 1 <= prec ->
  let '(N, D) := frac_of (round_q AwayFromZero prec neg n d) in
  0 < D /\ n * D <= N * d /\ N * d * 2 ^ (prec - 1) <= n * D * (2 ^ (prec - 1) + 1).
Proof. exact round_away_spec. Qed.
Print Assumptions C18_round_away_bounds.

(* The mechanism matters: with round-to-nearest-even at 512 bits, or away-from-zero at 64 or 256 bits,
   the round trip fails inside the EVM range.  (The harness replays these inputs on the implementation.) *)
Theorem C18_needs_away_and_prec :
  (exists n, 0 <= n < 2 ^ 256 /\ str_to_bigint_gen ToNearestEven 512 (bigint_to_str n) 18 <> Ok n) /\
  (exists n, 10 ^ 76 <= n < 2 ^ 256 /\ str_to_bigint_gen ToNearestEven 512 (bigint_to_str n) 18 <> Ok n) /\
  (exists n, 0 <= n < 2 ^ 256 /\ str_to_bigint_gen AwayFromZero 64 (bigint_to_str n) 18 <> Ok n) /\
  (exists n, 0 <= n < 2 ^ 256 /\ str_to_bigint_gen AwayFromZero 256 (bigint_to_str n) 18 <> Ok n).
Proof.
  split; [|split; [|split]].
  - exists 1. split; [split; [lia | reflexivity]|]. vm_compute. discriminate.
  - exists 56811621293817351934785017273554155345847226138550693813110463157238241372704.
    split; [split; [vm_compute; discriminate | reflexivity]|]. vm_compute. discriminate.
  - exists (2 ^ 70 + 1). split; [split; [vm_compute; discriminate | reflexivity]|]. vm_compute. discriminate.
  - exists 78863480712177860079531696335941234736299262810856364614764790490810452493866.
    split; [split; [lia | reflexivity]|]. vm_compute. discriminate.
Qed.
Print Assumptions C18_needs_away_and_prec.

(* Non-vacuity: concrete values satisfy the hypotheses and evaluate as stated. *)
Example C18_example :
  str_to_bigint (bigint_to_str (2 ^ 256 - 1)) = Ok (2 ^ 256 - 1) /\
  bigint_to_str 11220000000000000000 = [49; 49; 46; 50; 50; 48; 48; 48; 48; 48; 48; 48; 48; 48; 48; 48; 48; 48; 48; 48; 48]%N /\
  str_to_bigint (dec_string (Some true) ([49; 50]%N) ([48; 53]%N) true) = Ok (- 12050000000000000000) /\
  format_erc20 123456789012345678901 6 = Ok 123456789 /\
  format_rocket 123456789 6 = Ok 123456789000000000000.
Proof. vm_compute. repeat split. Qed.
