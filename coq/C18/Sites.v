(* C18: reviewed call sites of the conversion functions (utility.StrToBigInt / strToBigInt / BigIntToStr /
   bigIntToStr / FormatDecimalForERC20 / FormatDecimalForRocket / BigIntToStrWithoutDot / BigIntBytesToStr /
   Float64ToBigInt / Uint64ToBigInt) in the non-test Go sources, as  file|function|callee|argument text.
   The harness recomputes the inventory with go/ast on every run (cases CSite / CSiteCount): a call that is
   not in this list -- a new consumer, or a consumer whose argument is now a transformed string, e.g.
   StrToBigInt(normalize(value)) -- is an uncovered site and breaks the correspondence until it has been
   reviewed (and, if it is a peer-facing parser of amount strings, driven end to end in harness/cmd/c18).
   Regenerate the raw list with  C18_EMIT_SITES=/tmp/sites.txt <harness binary> ...  .
   Limit: a transformation applied to the string in an earlier statement is not visible here; for the
   peer-facing entry points that is what the end-to-end runs are for. *)
From Coq Require Import List String.
Import ListNotations.
Open Scope string_scope.

Definition covered_sites : list string := [
  (* direct argument (a field / variable, no transformation): utility-level theorems; not executed *)
  "core/game_executor_service.go|callVM|StrToBigInt|param.GasPrice";
  (* direct argument (a field / variable, no transformation): utility-level theorems; not executed *)
  "core/game_executor_service.go|callVM|StrToBigInt|param.Value";
  (* literal argument: C18_parse_exact *)
  "core/genesis_block.go|genGenesisBlock|StrToBigInt|""10661998""";
  (* literal argument: C18_parse_exact *)
  "core/genesis_block.go|genGenesisBlock|StrToBigInt|""2""";
  (* literal argument: C18_parse_exact *)
  "core/genesis_block_dev.go|addDevTestAsset|StrToBigInt|""1000000000""";
  (* literal argument: C18_parse_exact *)
  "core/genesis_block_dev.go|genDevGenesisBlock|StrToBigInt|""10661998""";
  (* literal argument: C18_parse_exact *)
  "core/genesis_block_dev.go|genDevGenesisBlock|StrToBigInt|""2""";
  (* literal argument: C18_parse_exact *)
  "core/genesis_block_robin.go|addRobinTestAsset|StrToBigInt|""1000000000""";
  (* literal argument: C18_parse_exact *)
  "core/genesis_block_robin.go|genRobinGenesisBlock|StrToBigInt|""10661998""";
  (* literal argument: C18_parse_exact *)
  "core/genesis_block_robin.go|genRobinGenesisBlock|StrToBigInt|""2""";
  (* direct argument (a field / variable, no transformation): utility-level theorems; not executed *)
  "core/genesis_sub.go|createEconomyContract|StrToBigInt|totalString";
  (* direct argument (a field / variable, no transformation): utility-level theorems; not executed *)
  "core/genesis_sub.go|createSubGovernance|StrToBigInt|totalReward";
  (* literal argument: C18_parse_exact *)
  "core/genesis_sub.go|genSubGenesisBlock|StrToBigInt|""10""";
  (* direct argument (a field / variable, no transformation): utility-level theorems; not executed *)
  "core/genesis_sub.go|genSubGenesisBlock|StrToBigInt|common.Genesis.Stake";
  (* direct argument strconv.FormatUint: C18_parse_uint_string *)
  "core/genesis_sub.go|genSubGenesisBlock|StrToBigInt|strconv.FormatUint(common.Genesis.TotalSupply, 10)";
  (* direct argument (a field / variable, no transformation): utility-level theorems; not executed *)
  "eth_rpc/api.go|newRPCTransaction|StrToBigInt|data.TransferValue";
  (* executed end to end: wrapped Ethereum transaction -> decodeContractData (C18/wrapped-tx-value) *)
  "eth_tx/transaction.go|ConvertTx|BigIntToStr|transferValue";
  (* executed end to end: wrapped Ethereum transaction -> decodeContractData (C18/wrapped-tx-value) *)
  "executor/contract_executor.go|decodeContractData|StrToBigInt|data.TransferValue";
  (* literal argument: C18_parse_exact *)
  "executor/miner_node_executor.go|(package level)|StrToBigInt|""10""";
  (* direct argument: utility-level theorems; not executed *)
  "gx/cli/wallets.go|getBalance|BigIntToStr|balance";
  (* direct argument: utility-level theorems; not executed *)
  "middleware/types/core.go|ReplaceBigInt|BigIntToStr|bigInt";
  (* executed end to end: operatorExecutor.Execute -> ChangeAssets -> transferBalance , keys C18/consumer:ChangeAssets:... *)
  "service/game.go|ChangeAssets|BigIntToStr|accountdb.GetBalance(targetAddr)";
  (* executed end to end: operatorExecutor.Execute -> ChangeAssets -> transferBalance , keys C18/consumer:ChangeAssets:... *)
  "service/game.go|ChangeAssets|BigIntToStr|leftBalance";
  (* executed end to end: operatorExecutor.Execute -> ChangeAssets -> transferBalance , keys C18/consumer:ChangeAssets:... *)
  "service/game.go|transferBalance|StrToBigInt|value";
  (* listed only: outside the clauses of C18 (float64 / whole-token source); not modelled *)
  "service/miner_manager.go|AddMiner|Float64ToBigInt|float64(miner.Stake)";
  (* listed only: outside the clauses of C18 (float64 / whole-token source); not modelled *)
  "service/miner_manager.go|AddStake|Float64ToBigInt|float64(delta)";
  (* listed only: outside the clauses of C18 (float64 / whole-token source); not modelled *)
  "service/refund_manager.go|GetRefundStake|Uint64ToBigInt|refund";
  (* listed only: outside the clauses of C18 (float64 / whole-token source); not modelled *)
  "service/reward_calculator.go|calculateRewardPerBlock|Float64ToBigInt|float64(stake) / float64(totalProposerStake) * otherRewardProposer";
  (* listed only: outside the clauses of C18 (float64 / whole-token source); not modelled *)
  "service/reward_calculator.go|calculateRewardPerBlock|Float64ToBigInt|float64(stake) / float64(totalValidatorStake) * rewardValidators";
  (* listed only: outside the clauses of C18 (float64 / whole-token source); not modelled *)
  "service/reward_calculator.go|calculateRewardPerBlock|Float64ToBigInt|total * common.ProposerReward";
  (* literal argument: C18_parse_exact *)
  "service/transaction_pool.go|(package level)|StrToBigInt|""0.0001""";
  (* literal argument: C18_parse_exact *)
  "service/transaction_pool.go|(package level)|StrToBigInt|""0.001""";
  (* modelled: Ledger.v (ft_step / ledger_view); executed on the in-memory AccountDB *)
  "storage/account/accountdb.go|setBalance|FormatDecimalForERC20|balance, int64(decimal)";
  (* modelled: Ledger.v (ft_step / ledger_view); executed on the in-memory AccountDB *)
  "storage/account/accountdb_tuntun.go|AddFT|FormatDecimalForERC20|balance, int64(decimal)";
  (* modelled: Ledger.v (ft_step / ledger_view); executed on the in-memory AccountDB *)
  "storage/account/accountdb_tuntun.go|GetFT|FormatDecimalForRocket|result, int64(decimal)";
  (* modelled: Ledger.v (ft_step / ledger_view); executed on the in-memory AccountDB *)
  "storage/account/accountdb_tuntun.go|SetFT|FormatDecimalForERC20|balance, int64(decimal)";
  (* modelled: Ledger.v (ft_step / ledger_view); executed on the in-memory AccountDB *)
  "storage/account/accountdb_tuntun.go|SubFT|FormatDecimalForERC20|balance, int64(decimal)";
  (* modelled: Ledger.v (ft_step / ledger_view); executed on the in-memory AccountDB *)
  "storage/account/accountdb_tuntun.go|SubFT|FormatDecimalForRocket|remain, int64(decimal)";
  (* modelled: Model.v follows this call *)
  "utility/data_convert.go|BigIntBytesToStr|BigIntToStr|amount";
  (* modelled: Model.v follows this call *)
  "utility/data_convert.go|BigIntToStrWithoutDot|BigIntToStr|number";
  (* modelled: Model.v follows this call *)
  "utility/data_convert.go|BigIntToStr|bigIntToStr|number, defaultDecimal";
  (* modelled: Model.v follows this call *)
  "utility/data_convert.go|FormatDecimalForERC20|BigIntToStr|number";
  (* modelled: Model.v follows this call *)
  "utility/data_convert.go|FormatDecimalForERC20|strToBigInt|numberString, decimal";
  (* modelled: Model.v follows this call *)
  "utility/data_convert.go|FormatDecimalForRocket|StrToBigInt|numberString";
  (* modelled: Model.v follows this call *)
  "utility/data_convert.go|FormatDecimalForRocket|bigIntToStr|number, int(decimal)";
  (* modelled: Model.v follows this call *)
  "utility/data_convert.go|StrToBigInt|strToBigInt|s, defaultDecimal";
  (* direct argument strconv.FormatUint: C18_parse_uint_string *)
  "vm/instructions.go|opGetStake|StrToBigInt|strconv.FormatUint(stake, 10)";
  (* listed only: outside the clauses of C18 (float64 / whole-token source); not modelled *)
  "vm/instructions.go|opStake|BigIntToStrWithoutDot|money";
  (* listed only: outside the clauses of C18 (float64 / whole-token source); not modelled *)
  "vm/instructions.go|opUnStake|BigIntToStrWithoutDot|money"
].
