#!/usr/bin/env python3
"""Confirm a seeded breaking change kept under /verif/seeded/<id>/:
  meta.json: {"property", "needs", "demo": {"files": {"<file in seed dir>": "<dest dir in repo>"}, "run": "<shell cmd>"},
              "existing_tests": ["./src/pkg/", ...]}
Steps (scratch worktree of /repo HEAD, removed afterwards):
  1. demo WITHOUT the patch must pass (exit 0)
  2. patch applies, `go build ./src/...` succeeds
  3. demo WITH the patch must fail (exit != 0)
  4. the baseline's stable_pass tests of the listed packages still pass with the patch (demo files removed)
Writes the outcome into meta.json["confirmed"]."""
import json, os, subprocess, sys, shutil, time
sd = os.path.realpath(sys.argv[1])
meta = json.load(open(os.path.join(sd, 'meta.json')))
env = dict(os.environ, GOFLAGS='-mod=mod', GOPROXY='off', GOSUMDB='off', GOTOOLCHAIN='local')
wt = '/tmp/seedconfirm-%d' % os.getpid()
def sh(cmd, **kw):
    p = subprocess.run(cmd, shell=isinstance(cmd, str), cwd=wt, env=env, capture_output=True, text=True, **kw)
    return p.returncode, (p.stdout + p.stderr)
subprocess.check_call(['git', '-C', '/repo', 'worktree', 'add', '-q', '--detach', wt, 'HEAD'])
res = {"repo_head": subprocess.run(['git', '-C', '/repo', 'rev-parse', '--short', 'HEAD'], capture_output=True, text=True).stdout.strip()}
ok = True
try:
    def put_demo():
        for f, dest in meta['demo']['files'].items():
            os.makedirs(os.path.join(wt, dest), exist_ok=True)
            shutil.copy(os.path.join(sd, f), os.path.join(wt, dest, os.path.basename(f)))
    def del_demo():
        for f, dest in meta['demo']['files'].items():
            try: os.remove(os.path.join(wt, dest, os.path.basename(f)))
            except FileNotFoundError: pass
    put_demo()
    rc, out = sh(meta['demo']['run'], timeout=1800)
    res['demo_without_patch'] = 'pass' if rc == 0 else 'FAIL(rc=%d): %s' % (rc, out[-400:])
    ok &= rc == 0
    del_demo()
    rc, out = sh(['git', 'apply', os.path.join(sd, 'patch.diff')])
    res['patch_applies'] = rc == 0; ok &= rc == 0
    rc, out = sh('go build ./src/... ', timeout=1800)
    res['builds'] = rc == 0 or out[-400:]; ok &= rc == 0
    put_demo()
    rc, out = sh(meta['demo']['run'], timeout=1800)
    res['demo_with_patch'] = 'fails (rc=%d)' % rc if rc != 0 else 'PASSES - seed does not manifest'
    res['demo_with_patch_tail'] = out[-600:]
    ok &= rc != 0
    del_demo()
    base = json.load(open('/root/.vp/BASELINE.json'))
    missing = []
    for pkg in meta.get('existing_tests', []):
        full = 'com.tuntun.rangers/node/' + pkg.strip('./').rstrip('/')
        want = {t.split('::')[1] for t in base['stable_pass'] if t.split('::')[0] == full}
        if not want:
            continue
        tops = sorted({t.split('/')[0] for t in want})
        # only the baseline's stable tests are run (several packages contain tests that hang or loop at HEAD)
        rc, out = sh(['go', 'test', '-json', '-vet=off', '-count=1', '-timeout', '25m', '-run', '^(' + '|'.join(tops) + ')$', pkg], timeout=2400)
        passed = set()
        for ln in out.splitlines():
            try: d = json.loads(ln)
            except Exception: continue
            if d.get('Action') == 'pass' and d.get('Test'): passed.add(d['Test'])
        missing += [pkg + '::' + t for t in sorted(want - passed)]
    res['existing_tests_missing'] = missing; ok &= not missing
    for cmd in meta.get('also_passing', []):
        rc, out = sh(cmd, timeout=2400)
        res.setdefault('also_passing', {})[cmd] = 'pass' if rc == 0 else 'FAIL rc=%d %s' % (rc, out[-300:])
        ok &= rc == 0
finally:
    subprocess.run(['git', '-C', '/repo', 'worktree', 'remove', '--force', wt], capture_output=True)
res['ok'] = bool(ok); res['when'] = time.strftime('%Y-%m-%d %H:%M')
meta['confirmed'] = res
json.dump(meta, open(os.path.join(sd, 'meta.json'), 'w'), indent=1)
print(json.dumps(res, indent=1)[:1500])
sys.exit(0 if ok else 1)
