#!/bin/sh
# Regenerates coq/C12/Table.v: the opcode table (writes flag of the live jump table, readOnly self-guard,
# reaches-a-mutator) extracted from /repo (or $VERIF_REPO) by the C12 harness (go/parser + vm.VerifVMLiveTable).
set -e
ROOT=$(cd "$(dirname "$0")/../.." && pwd)
export GOFLAGS=-mod=mod GOPROXY=off GOSUMDB=off GOTOOLCHAIN=local
mkdir -p "$ROOT/build/C12/tablegen/work" "$ROOT/build/C12/tablegen/out"
(cd "$ROOT/harness" && go build -tags verif -o "$ROOT/build/C12/tablegen/c12" ./cmd/c12)
(cd "$ROOT/build/C12/tablegen/work" && C12_TABLE_V="$ROOT/coq/C12/Table.v" "$ROOT/build/C12/tablegen/c12" -tier table -out "$ROOT/build/C12/tablegen/out" >/dev/null 2>&1)
echo "wrote $ROOT/coq/C12/Table.v"
