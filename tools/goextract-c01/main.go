// goextract-c01: regenerates coq/C01/Gen.v (the nondeterminism inventory of property C01) from the
// node's sources. The scanner itself lives in the harness module (verif/harness/c01inv) because the
// C01 harness runs it again on every check; this is the command-line front end.
//
//	cd /verif/tools/goextract-c01 && go run . -repo /repo -out /verif/coq/C01/Gen.v [-list]
//
// Route: go/parser + go/ast + go/types over source (own importer for module and third-party packages,
// stdlib "source" importer for the standard library); no syntactic fallback is used.
package main

import (
	"flag"
	"fmt"
	"os"

	"verif/harness/c01inv"
)

func main() {
	repo := flag.String("repo", "/repo", "node source tree")
	out := flag.String("out", "", "output .v file (default: stdout)")
	list := flag.Bool("list", false, "print the sites as tab-separated text instead of Coq")
	all := flag.Bool("all", false, "review aid: also list sites in functions NOT reachable from the roots (kind prefixed unreachable:)")
	flag.Parse()
	c01inv.All = *all
	sites, st, err := c01inv.Scan(*repo)
	if err != nil {
		fmt.Fprintln(os.Stderr, "goextract-c01:", err)
		os.Exit(1)
	}
	fmt.Fprintf(os.Stderr, "packages=%d functions=%d reachable=%d sites=%d type-errors=%d fake-imports=%d missing-roots=%v\n",
		st.Packages, st.Functions, st.Reachable, len(sites), st.TypeErrors, st.FakeImports, st.MissingRoots)
	if len(st.MissingRoots) > 0 {
		fmt.Fprintln(os.Stderr, "goextract-c01: a root of the reachability no longer exists (source shape changed)")
		os.Exit(1)
	}
	var text string
	if *list {
		for _, s := range sites {
			text += fmt.Sprintf("%s\t%s\t%s\t%s\n", s.File, s.Func, s.Kind, s.Detail)
		}
	} else {
		text = c01inv.GenV(sites)
	}
	if *out == "" {
		fmt.Print(text)
		return
	}
	if err := os.WriteFile(*out, []byte(text), 0644); err != nil {
		fmt.Fprintln(os.Stderr, err)
		os.Exit(1)
	}
}
