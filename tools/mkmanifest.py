#!/usr/bin/env python3
"""Regenerate MANIFEST.json from props/*.json (single source of truth per property)."""
import glob, json, os
ROOT = os.path.dirname(os.path.dirname(os.path.abspath(__file__)))
props = [json.loads(l) for l in open(os.path.join(ROOT, "properties.jsonl"))]
cfgs = {}
for p in sorted(glob.glob(os.path.join(ROOT, "props", "C*.json"))):
    c = json.load(open(p)); cfgs[c["id"]] = c
checks, na = [], []
for p in props:
    pid = p["id"]
    c = cfgs.get(pid)
    if not c or c.get("disabled"):
        na.append({"property_id": pid, "reason": (c or {}).get("disabled", "check not built yet in this development (work in progress; see DESIGN.md section 4 for the planned model and theorems)")})
        continue
    m = c.get("manifest", {})
    checks.append({
        "property_id": pid,
        "quick_cmd": "./check %s --tier quick" % pid,
        "thorough_cmd": "./check %s --tier thorough" % pid,
        "evidence_file": "evidence/%s.json" % pid,
        "replay_cmd_template": "./check %s --replay {path}" % pid,
        "engine": "coq-model+go-harness",
        "level_claimed": {"category": c.get("level", "proof"),
                          "text": m.get("level_text", ""),
                          "design_ref": m.get("design_ref", "DESIGN.md section 4, " + pid)},
        "level_note": m.get("level_note", "; ".join(c.get("trusted_base", []))),
        "technique": m.get("technique", "Coq 8.16 theorems over a Gallina model + differential correspondence with the Go implementation"),
    })
# aggregate known findings
agg = {"findings": [], "fixed": []}
seen = set()
for kp in sorted(glob.glob(os.path.join(ROOT, "known_findings.d", "*.json"))):
    d = json.load(open(kp))
    for sec in ("findings", "fixed"):
        for f in d.get(sec, []):
            k = (sec, f.get("property"), f.get("key"), f.get("commit"))
            if k not in seen:
                seen.add(k); agg[sec].append(f)
json.dump(agg, open(os.path.join(ROOT, "known_findings.json"), "w"), indent=1)
hooks = json.load(open(os.path.join(ROOT, "MANIFEST.hooks")))
man = {
    "version": 1,
    "setup_cmd": "./check --setup",
    "hooks": hooks,
    "engines": [{"name": "coq-model+go-harness", "path": "lib/checklib.py",
                 "serves_properties": [c["property_id"] for c in checks],
                 "kind_free_text": "Coq 8.16.1 proofs over hand-written/generated Gallina models (coq/), tied to /repo by a Go harness (harness/, -tags verif) that runs implementation and model on the same seeded inputs; model evaluated by coqc vm_compute"}],
    "checks": checks,
    "not_applicable": na,
    "notes": "All checks: ./check <id> [--tier quick|thorough]; VERIF_SEED / VERIF_TIER honoured. known_findings.json lists recorded findings and fixed defects."
}
json.dump(man, open(os.path.join(ROOT, "MANIFEST.json"), "w"), indent=1)
print("checks:", [c["property_id"] for c in checks], "na:", len(na))
