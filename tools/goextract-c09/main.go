// goextract-c09: regenerates coq/C09/Gen.v (per-field access modes of the pb -> value conversions of
// property C09) from the node's sources. The scanner lives in the harness module (verif/harness/c09ext,
// stdlib go/parser + go/ast only) because the C09 harness runs it again on every check and compares the
// result with the committed Gen.v; this is the command-line front end.
//
//	cd /verif/tools/goextract-c09 && go run . -repo /repo -out /verif/coq/C09/Gen.v [-list]
package main

import (
	"flag"
	"fmt"
	"os"

	"verif/harness/c09ext"
)

func main() {
	repo := flag.String("repo", "/repo", "node source tree")
	out := flag.String("out", "", "output .v file (default: stdout)")
	list := flag.Bool("list", false, "print the sites as tab-separated text instead of Coq")
	flag.Parse()
	r, err := c09ext.Scan(*repo)
	if err != nil {
		fmt.Fprintln(os.Stderr, "goextract-c09:", err)
		os.Exit(1)
	}
	fmt.Fprintf(os.Stderr, "messages=%d functions=%d sites=%d holders=%d calls=%d\n", len(r.Msgs), len(r.Funcs), len(r.Sites), len(r.Recvs), len(r.Calls))
	var text string
	if *list {
		for _, s := range r.Sites {
			text += fmt.Sprintf("site\t%s\t%s:%s.%s\t%s\t%s\t%s\tholder=%s\tline %d\n", s.Func, s.Var, s.Msg, s.Field, s.Kind, s.Label, s.Mode, s.Holder, s.Line)
		}
		for _, s := range r.Recvs {
			text += fmt.Sprintf("recv\t%s\t%s:%s\t%s\tline %d\n", s.Func, s.Var, s.Msg, s.Mode, s.Line)
		}
		for _, c := range r.Calls {
			text += fmt.Sprintf("call\t%s\t%s(%s)\tline %d\n", c.Func, c.Callee, c.Arg, c.Line)
		}
	} else {
		text = c09ext.GenV(r)
	}
	if *out == "" {
		fmt.Print(text)
		return
	}
	if err := os.WriteFile(*out, []byte(text), 0644); err != nil {
		fmt.Fprintln(os.Stderr, err)
		os.Exit(1)
	}
}
