module verif/tools/goextract-c09

go 1.13

require verif/harness v0.0.0

replace verif/harness => ../../harness

replace com.tuntun.rangers/node => /repo
