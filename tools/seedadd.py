#!/usr/bin/env python3
"""seedadd.py <seed-id> <src dir with patch.diff/demo/README.txt> <property> <demo dest dir in repo> <demo run cmd> [--pkg ./src/x/ ...] [--also 'cmd' ...]
Copies a sub-agent's seeded change into /verif/seeded/<seed-id>/ and writes meta.json (then run seedconfirm.py)."""
import sys, os, shutil, json
sid, src, prop, dest, run = sys.argv[1:6]
rest = sys.argv[6:]
pkgs, also = [], []
i = 0
while i < len(rest):
    if rest[i] == '--pkg': pkgs.append(rest[i+1]); i += 2
    elif rest[i] == '--also': also.append(rest[i+1]); i += 2
    else: i += 1
root = os.path.join(os.path.dirname(os.path.dirname(os.path.abspath(__file__))), 'seeded', sid)
os.makedirs(root, exist_ok=True)
files = {}
for f in sorted(os.listdir(src)):
    if f == 'patch.diff' or f == 'README.txt':
        shutil.copy(os.path.join(src, f), root)
    elif f.endswith('.go'):
        shutil.copy(os.path.join(src, f), root); files[f] = dest
readme = open(os.path.join(src, 'README.txt')).read() if os.path.exists(os.path.join(src, 'README.txt')) else ''
meta = {"property": prop, "summary": readme.strip().split('\n')[0][:600], "needs": "see README.txt",
        "demo": {"files": files, "run": run}, "existing_tests": pkgs, "also_passing": also, "detected_by": "(pending)"}
json.dump(meta, open(os.path.join(root, 'meta.json'), 'w'), indent=1)
print(root, files)
