#!/usr/bin/env python3
"""Run the repository's pinned baseline (guard OFF) on a scratch worktree of /repo HEAD and
report every stable_pass test of /root/.vp/BASELINE.json that no longer passes.
usage: baseline_check.py [pkg-substring ...]   (default: all packages with stable tests)"""
import json, os, subprocess, sys, collections, shutil
base = json.load(open('/root/.vp/BASELINE.json'))
want = collections.defaultdict(set)
for t in base['stable_pass']:
    pkg, name = t.split('::')
    want[pkg].add(name)
pkgs = sorted(want)
if len(sys.argv) > 1:
    pkgs = [p for p in pkgs if any(a in p for a in sys.argv[1:])]
wt = '/tmp/baseline-wt'
subprocess.run(['git', '-C', '/repo', 'worktree', 'remove', '--force', wt], capture_output=True)
shutil.rmtree(wt, ignore_errors=True)
subprocess.check_call(['git', '-C', '/repo', 'worktree', 'add', '-q', '--detach', wt, 'HEAD'])
env = dict(os.environ, GOFLAGS='-mod=mod', GOPROXY='off', GOSUMDB='off', GOTOOLCHAIN='local')
bad = []
try:
    for pkg in pkgs:
        rel = './' + pkg.split('com.tuntun.rangers/node/')[1]
        p = subprocess.run(['go', 'test', '-json', '-vet=off', '-count=1', '-timeout', '25m', rel],
                           cwd=wt, env=env, capture_output=True, text=True)
        passed = set()
        for ln in p.stdout.splitlines():
            try:
                d = json.loads(ln)
            except Exception:
                continue
            if d.get('Action') == 'pass' and d.get('Test'):
                passed.add(d['Test'])
        miss = sorted(want[pkg] - passed)
        print('%-70s want=%d pass=%d missing=%s' % (pkg, len(want[pkg]), len(want[pkg] & passed), miss), flush=True)
        bad += [(pkg, m) for m in miss]
finally:
    subprocess.run(['git', '-C', '/repo', 'worktree', 'remove', '--force', wt], capture_output=True)
print('HEAD', subprocess.run(['git', '-C', '/repo', 'rev-parse', '--short', 'HEAD'], capture_output=True, text=True).stdout.strip())
print('BASELINE', 'OK' if not bad else 'REGRESSIONS: %s' % bad)
sys.exit(1 if bad else 0)
