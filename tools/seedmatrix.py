#!/usr/bin/env python3
"""Print the seeded-change matrix (markdown) from seeded/*/meta.json."""
import json, glob, os, re
ROOT = os.path.dirname(os.path.dirname(os.path.abspath(__file__)))
rows = []
for mp in sorted(glob.glob(os.path.join(ROOT, 'seeded', '*', 'meta.json'))):
    m = json.load(open(mp)); sid = os.path.basename(os.path.dirname(mp))
    cr = m.get('check_result', {}); conf = m.get('confirmed', {})
    summ = re.sub(r'\s+', ' ', m.get('summary', ''))[:230].replace('|', '/')
    det = m.get('detected_by', '')
    det = re.sub(r'^\./check \S+ \((\w+)\): ', r'\1: ', det).replace('|', '/')
    note = m.get('history', '')
    rows.append('| %s | %s | %s | %s%s |' % (sid, summ, 'yes' if conf.get('ok') else 'NO', det[:260], (' — ' + note) if note else ''))
print('| seed | change (first line of the seeder\'s README) | confirmed | verdict of the check |')
print('|------|-----------|-----------|------------------|')
print('\n'.join(rows))
