#!/bin/sh
# usage: tools/seedtest.sh <Cxx> <patch.diff> [tier]
# Applies a seeded breaking change to a scratch worktree of /repo HEAD, runs ./check Cxx against it
# (VERIF_REPO), prints the verdict lines, removes the worktree and the alt build output.
set -u
PID=$1; PATCH=$(realpath "$2"); TIER=${3:-quick}
WT=/tmp/seedrun-$PID-$$
git -C /repo worktree add -q --detach "$WT" HEAD || exit 2
if ! git -C "$WT" apply "$PATCH"; then echo "PATCH DOES NOT APPLY"; git -C /repo worktree remove --force "$WT"; exit 2; fi
cd "$(dirname "$0")/.."
VERIF_REPO="$WT" ./check "$PID" --tier "$TIER" > "/tmp/seedrun-$PID-$$.log" 2>&1
RC=$?
grep -E '^(VIOLATION|KNOWN-FINDING|\[check)|BROKEN' "/tmp/seedrun-$PID-$$.log" | cut -c1-400 | head -20
TAG=alt-$(python3 -c "import hashlib,os,sys;print(hashlib.sha1(os.path.realpath(sys.argv[1]).encode()).hexdigest()[:8])" "$WT")
if [ -f "build/$TAG/replays/"*.json ] 2>/dev/null; then mkdir -p build/seedreplays; cp build/$TAG/replays/*.json build/seedreplays/ 2>/dev/null; fi
rm -rf "build/$TAG" "build/bin/$TAG"
git -C /repo worktree remove --force "$WT"
rm -f "/tmp/seedrun-$PID-$$.log"
echo "seedtest $PID rc=$RC"
exit $RC
