#!/bin/sh
# usage: tools/seedtest.sh <Cxx> <seeded/dir | patch.diff> [tier]
# Applies a seeded breaking change to a scratch worktree of /repo HEAD, runs ./check Cxx against it
# (VERIF_REPO), prints the verdict, stores the replay under build/seedreplays/<seed>.json, records the
# outcome in <dir>/meta.json ("check_result"), removes the worktree and the alt build output.
set -u
PID=$1; SRC=$2; TIER=${3:-quick}
if [ -d "$SRC" ]; then SD=$(realpath "$SRC"); PATCH=$SD/patch.diff; NAME=$(basename "$SD"); else SD=""; PATCH=$(realpath "$SRC"); NAME=$PID-adhoc; fi
WT=/tmp/seedrun-$PID-$$
git -C /repo worktree add -q --detach "$WT" HEAD || exit 2
if ! git -C "$WT" apply "$PATCH"; then echo "PATCH DOES NOT APPLY"; git -C /repo worktree remove --force "$WT"; exit 2; fi
cd "$(dirname "$0")/.."
LOG=/tmp/seedrun-$PID-$$.log
VERIF_REPO="$WT" ./check "$PID" --tier "$TIER" > "$LOG" 2>&1
RC=$?
grep -E '^(VIOLATION|KNOWN-FINDING|\[check)' "$LOG" | cut -c1-300 | head -12
grep -c 'BROKEN' "$LOG" | sed 's/^/broken lines: /'
TAG=alt-$(python3 -c "import hashlib,os,sys;print(hashlib.sha1(os.path.realpath(sys.argv[1]).encode()).hexdigest()[:8])" "$WT")
mkdir -p build/seedreplays
REP=$(ls build/$TAG/replays/*.json 2>/dev/null | head -1)
[ -n "$REP" ] && cp "$REP" "build/seedreplays/$NAME.json"
if [ -n "$SD" ]; then python3 - "$SD/meta.json" "$RC" "$LOG" "build/seedreplays/$NAME.json" "$TIER" <<'PY'
import json,sys,re,os
mp,rc,log,rep,tier=sys.argv[1:6]
m=json.load(open(mp)); out=open(log).read()
vl=[l for l in out.splitlines() if l.startswith('VIOLATION')]
res={"tier":tier,"exit":int(rc),"violation_line":re.sub(r'replay=\S+','replay=<file>',vl[0]) if vl else None,
     "no_failing_input_found": bool(vl and vl[0].rstrip().endswith('no-failing-input-found')),
     "repo_head": os.popen('git -C /repo rev-parse --short HEAD').read().strip()}
if os.path.exists(rep):
    r=json.load(open(rep)); res["failing_inputs"]=[{"key":v.get("key"),"what":str(v.get("what"))[:200],"input":str(v.get("input"))[:300]} for v in r.get("violations",[])[:3]]
    res["broken_obligations"]=[b[:200] for b in r.get("broken_obligations",[])[:3]]
m["check_result"]=res
m["detected_by"]=("./check %s (%s): " % (m["property"],tier)) + ("NOT DETECTED" if int(rc)==0 else ("VIOLATION no-failing-input-found" if res["no_failing_input_found"] else "VIOLATION with failing input " + ", ".join(sorted({v["key"] for v in res.get("failing_inputs",[])}))))
json.dump(m,open(mp,'w'),indent=1)
print(m["detected_by"])
PY
fi
rm -rf "build/$TAG" "build/bin/$TAG"
git -C /repo worktree remove --force "$WT"
rm -f "$LOG"
echo "seedtest $NAME rc=$RC"
exit $RC
