#!/usr/bin/env python3
"""Print the fixed defects and listed known findings (markdown) from known_findings.json."""
import json, os, re
ROOT = os.path.dirname(os.path.dirname(os.path.abspath(__file__)))
d = json.load(open(os.path.join(ROOT, 'known_findings.json')))
def cl(s, n): return re.sub(r'\s+', ' ', s or '').replace('|', '/')[:n]
print('**Genuine defects repaired in /repo (`fix:` commits; a fixed entry suppresses nothing)**\n')
print('| property | commit | key | what failed |\n|---|---|---|---|')
for f in sorted(d['fixed'], key=lambda f: (f.get('property'), f.get('commit', ''))):
    print('| %s | %s | `%s` | %s |' % (f.get('property'), f.get('commit', ''), cl(f.get('key', ''), 90), cl(f.get('what', ''), 300)))
print('\n**Genuine defects recorded as known findings (KNOWN-FINDING line, exit 0; any other violation of the same property is still reported)**\n')
print('| property | key | what fails |\n|---|---|---|')
for f in sorted(d['findings'], key=lambda f: (f.get('property'), f.get('key', ''))):
    print('| %s | `%s` | %s |' % (f.get('property'), cl(f.get('key', ''), 90), cl(f.get('what', ''), 300)))
