#!/usr/bin/env python3
"""Common driver for every property check (see DESIGN.md sections 0, 1, 6, 7).

Verdict logic of one run:
  1. regenerate generated Coq parts from /repo (tools/goextract), if the property has any
  2. full .vo build of the property's proof cone (coq_makefile + make)   -> obligations
  3. build the Go harness from /repo's working tree with -tags verif
  4. run the harness: it executes the implementation on seeded inputs, evaluates the
     property directly on the implementation (the failing-input search) and writes
     cases_*.v holding the same inputs with the implementation's observed outputs
  5. coqc evaluates the model on those cases (vm_compute) -> list of mismatching cases
  6. verdict, evidence/<id>.json, KNOWN-FINDING / VIOLATION lines, exit code
"""
import fcntl
import fnmatch
import glob
import hashlib
import json
import os
import re
import shutil
import subprocess
import sys
import time

ROOT = os.path.dirname(os.path.dirname(os.path.abspath(__file__)))
REPO = os.path.realpath(os.environ.get("VERIF_REPO", "/repo"))
ALT = REPO != "/repo"          # sensitivity runs against a scratch worktree: separate outputs, /repo untouched
ALTTAG = ("alt-" + hashlib.sha1(REPO.encode()).hexdigest()[:8]) if ALT else ""
COQ = os.path.join(ROOT, "coq")
BUILD = os.path.join(ROOT, "build")
BIN = os.path.join(BUILD, "bin", ALTTAG) if ALT else os.path.join(BUILD, "bin")
OUTROOT = os.path.join(BUILD, ALTTAG) if ALT else ROOT      # evidence/ and replays/ live here
RUNROOT = os.path.join(BUILD, ALTTAG) if ALT else BUILD
HARNESS = os.path.join(ROOT, "harness")
GOENV = dict(os.environ, GOFLAGS="-mod=mod", GOPROXY="off", GOSUMDB="off",
             GOTOOLCHAIN="local", CGO_ENABLED="1")
COQFLAGS = ["-R", COQ, "V"]

FORBIDDEN = re.compile(
    r"(?<![A-Za-z0-9_'])(Admitted|admit|Axiom|Axioms|Parameter|Parameters|Conjecture|Conjectures|"
    r"Admit\s+Obligations|bypass_check|Unset\s+Guard\s+Checking|Unset\s+Positivity\s+Checking|"
    r"Unset\s+Universe\s+Checking|type-in-type|impredicative-set)(?![A-Za-z0-9_'])")
STMT = re.compile(r"^\s*(?:Local\s+|Global\s+|#\[[^\]]*\]\s*)*(Theorem|Lemma|Corollary|Example|Fact|Proposition|Remark)\s+([A-Za-z0-9_']+)", re.M)


def sh(cmd, cwd=None, env=None, timeout=None, stdin=None):
    t0 = time.time()
    try:
        p = subprocess.run(cmd, cwd=cwd, env=env, timeout=timeout, input=stdin,
                           stdout=subprocess.PIPE, stderr=subprocess.STDOUT, text=True, errors="replace")
        return p.returncode, p.stdout, time.time() - t0
    except subprocess.TimeoutExpired as e:
        out = e.stdout or ""
        if isinstance(out, bytes):
            out = out.decode("utf-8", "replace")
        return 124, out + "\n[timeout after %ss]" % timeout, time.time() - t0


class Lock:
    def __init__(self, name):
        os.makedirs(BUILD, exist_ok=True)
        self.path = os.path.join(BUILD, "." + name + ".lock")

    def __enter__(self):
        self.f = open(self.path, "w")
        fcntl.flock(self.f, fcntl.LOCK_EX)
        return self

    def __exit__(self, *a):
        fcntl.flock(self.f, fcntl.LOCK_UN)
        self.f.close()


NSLOTS = max(1, int(os.environ.get("VERIF_JOBS", "12")))


class Slot:
    """One of NSLOTS machine-wide slots (flock on build/.slot-<i>.lock), so that many checks running at
    once do not start hundreds of coqc processes."""
    def __enter__(self):
        os.makedirs(BUILD, exist_ok=True)
        root_build = os.path.join(ROOT, "build")
        while True:
            for i in range(NSLOTS):
                f = open(os.path.join(root_build, ".slot-%d.lock" % i), "w")
                try:
                    fcntl.flock(f, fcntl.LOCK_EX | fcntl.LOCK_NB)
                    self.f = f
                    return self
                except OSError:
                    f.close()
            time.sleep(0.2)

    def __exit__(self, *a):
        fcntl.flock(self.f, fcntl.LOCK_UN)
        self.f.close()


def load_cfg(pid):
    with open(os.path.join(ROOT, "props", pid + ".json")) as f:
        return json.load(f)


def strip_comments(src):
    out, depth, i, n = [], 0, 0, len(src)
    instr = False
    while i < n:
        c2 = src[i:i + 2]
        if not instr and c2 == "(*":
            depth += 1; i += 2; continue
        if not instr and depth and c2 == "*)":
            depth -= 1; i += 2; continue
        ch = src[i]
        if depth == 0:
            if ch == '"':
                instr = not instr
            out.append(ch)
        i += 1
    return "".join(out)


def coq_sources(dirs):
    files = []
    for d in dirs:
        files += sorted(glob.glob(os.path.join(COQ, d, "*.v")))
    return files


def ensure_coq_makefile():
    """_CoqProject lists every .v under coq/*/ ; regenerated when the file list changes."""
    files = sorted(os.path.relpath(p, COQ) for p in glob.glob(os.path.join(COQ, "*", "*.v")))
    want = "-R . V\n" + "\n".join(files) + "\n"
    cp = os.path.join(COQ, "_CoqProject")
    have = open(cp).read() if os.path.exists(cp) else ""
    if have != want or not os.path.exists(os.path.join(COQ, "Makefile")):
        with open(cp, "w") as f:
            f.write(want)
        rc, out, _ = sh(["coq_makefile", "-f", "_CoqProject", "-o", "Makefile"], cwd=COQ)
        if rc != 0:
            raise RuntimeError("coq_makefile failed:\n" + out)


def coq_build(targets, timeout):
    ensure_coq_makefile()
    cmd = ["make", "-j16", "-k"] + targets
    rc, out, dt = sh(cmd, cwd=COQ, timeout=timeout)
    return rc, out, dt, "cd coq && coq_makefile -f _CoqProject -o Makefile && " + " ".join(cmd)


def scan_forbidden(files):
    bad = []
    for p in files:
        src = strip_comments(open(p).read())
        for m in FORBIDDEN.finditer(src):
            line = src.count("\n", 0, m.start()) + 1
            bad.append("%s:%d:%s" % (os.path.relpath(p, ROOT), line, m.group(1)))
    return bad


def count_statements(files):
    names = []
    for p in files:
        src = strip_comments(open(p).read())
        for m in STMT.finditer(src):
            names.append(os.path.basename(os.path.dirname(p)) + "." + os.path.basename(p)[:-2] + "." + m.group(2))
    return names


def dep_cone(targets):
    """.v files in the dependency cone of the targets, via coqdep."""
    seen = set()
    todo = [t[:-3] + ".v" if t.endswith(".vo") else t for t in targets]
    allv = {os.path.relpath(p, COQ) for p in glob.glob(os.path.join(COQ, "*", "*.v"))}
    while todo:
        v = todo.pop()
        if v in seen or v not in allv:
            continue
        seen.add(v)
        src = strip_comments(open(os.path.join(COQ, v)).read())
        for m in re.finditer(r"From\s+V\.([A-Za-z0-9_]+)\s+Require\s+(?:Import\s+|Export\s+)?([A-Za-z0-9_ \n]+?)\.", src):
            for mod in m.group(2).split():
                todo.append(m.group(1) + "/" + mod + ".v")
        for m in re.finditer(r"Require\s+(?:Import\s+|Export\s+)?((?:V\.[A-Za-z0-9_.]+\s*)+)\.", src):
            for q in m.group(1).split():
                parts = q.split(".")
                if len(parts) == 3:
                    todo.append(parts[1] + "/" + parts[2] + ".v")
    return sorted(os.path.join(COQ, v) for v in seen)


def parse_assumptions(log):
    """Print Assumptions output: list of (theorem-ish context, text)."""
    res = []
    chunks = re.split(r"\n(?=Closed under the global context|Axioms:)", "\n" + log)
    for c in chunks:
        c = c.strip()
        if c.startswith("Closed under the global context"):
            res.append("Closed under the global context")
        elif c.startswith("Axioms:"):
            body = c.split("\n")
            ax = []
            for ln in body[1:]:
                if ln.startswith(" ") or ln.startswith("\t") or re.match(r"^[A-Za-z0-9_.']+\s*:", ln):
                    ax.append(ln.strip())
                else:
                    break
            res.append("Axioms: " + " ".join(ax))
    return res


def go_build(pkg, out, tags="verif", timeout=900, extra=()):
    os.makedirs(BIN, exist_ok=True)
    gosum_src = os.path.join(REPO, "go.sum")
    gosum_dst = os.path.join(HARNESS, "go.sum")
    if os.path.exists(gosum_src):
        if not os.path.exists(gosum_dst) or open(gosum_src).read() != open(gosum_dst).read():
            shutil.copy(gosum_src, gosum_dst)
    cmd = ["go", "build"] + list(extra) + ["-tags", tags, "-o", out, pkg]
    if ALT:
        md = os.path.join(BUILD, ALTTAG, "mod")
        os.makedirs(md, exist_ok=True)
        gm = open(os.path.join(HARNESS, "go.mod")).read().replace("=> /repo", "=> " + REPO)
        open(os.path.join(md, "go.mod"), "w").write(gm)
        if os.path.exists(gosum_src):
            shutil.copy(gosum_src, os.path.join(md, "go.sum"))
        cmd = ["go", "build"] + list(extra) + ["-modfile=" + os.path.join(md, "go.mod"), "-tags", tags, "-o", out, pkg]
    rc, o, dt = sh(cmd, cwd=HARNESS, env=GOENV, timeout=timeout)
    return rc, o, dt


def parse_mismatches(out):
    """cases_*.v must `Print mismatches.`; returns (ok, text)."""
    m = re.search(r"mismatches\s*=\s*(.*?)\n\s*:\s", out, re.S)
    if not m:
        return None, out[-2000:]
    body = re.sub(r"\s+", " ", m.group(1)).strip()
    return body, body


def load_known():
    """known_findings.json (aggregate, committed) plus known_findings.d/*.json (per property)."""
    res = {"findings": [], "fixed": []}
    seen = set()
    paths = [os.path.join(ROOT, "known_findings.json")] + sorted(glob.glob(os.path.join(ROOT, "known_findings.d", "*.json")))
    for p in paths:
        if not os.path.exists(p):
            continue
        try:
            d = json.load(open(p))
        except Exception as e:
            print("warning: cannot read %s: %s" % (p, e))
            continue
        for sec in ("findings", "fixed"):
            for f in d.get(sec, []):
                k = (sec, f.get("property"), f.get("key"), f.get("commit"))
                if k not in seen:
                    seen.add(k)
                    res[sec].append(f)
    return res


def is_known(known, pid, key):
    for f in known.get("findings", []):
        if f.get("property") == pid and fnmatch.fnmatchcase(key, f.get("key", "")):
            return f
    return None


def write_json(path, obj):
    os.makedirs(os.path.dirname(path), exist_ok=True)
    tmp = path + ".tmp"
    with open(tmp, "w") as f:
        json.dump(obj, f, indent=1, sort_keys=False, default=str)
        f.write("\n")
    os.replace(tmp, path)


def run_check(pid, tier, seed, replay=None):
    t0 = time.time()
    cfg = load_cfg(pid)
    tcfg = dict(cfg.get("quick", {}))
    if tier == "thorough":
        tcfg.update(cfg.get("thorough", {}))
    n = int(os.environ.get("VERIF_N", tcfg.get("n", 500)))
    rundir = os.path.join(RUNROOT, pid, "run-" + tier)
    workdir = os.path.join(RUNROOT, pid, "work-" + tier)
    for d in (rundir, workdir):
        shutil.rmtree(d, ignore_errors=True)
        os.makedirs(d)
    problems = []   # broken proof obligations / correspondence (strings)
    notes = []
    checker_cmds = []
    assumptions_seen = []
    obligations, discharged = 0, 0
    harness_res = {}
    mismatch_cases = []
    cases_run = 0

    with Lock("build"):
        # 1. generated model parts
        for g in cfg.get("gen", []):
            gbin = os.path.join(BIN, "goextract")
            rc, o, _ = sh(["go", "build", "-o", gbin, "."], cwd=os.path.join(ROOT, "tools", "goextract"),
                          env=dict(GOENV, GOFLAGS="-mod=mod"), timeout=600)
            if rc != 0:
                problems.append("translator tools/goextract does not build:\n" + o[-1500:])
                break
            outp = os.path.join(ROOT, g["out"])
            tmp = os.path.join(rundir, os.path.basename(g["out"]))
            rc, o, _ = sh([gbin, "-repo", REPO, "-target", g["target"], "-out", tmp], cwd=ROOT, env=GOENV, timeout=600)
            if rc != 0:
                problems.append("translator failed on target %s (source shape changed):\n%s" % (g["target"], o[-1500:]))
                continue
            new = open(tmp).read()
            old = open(outp).read() if os.path.exists(outp) else None
            if new != old:
                with open(outp, "w") as f:
                    f.write(new)
                notes.append("regenerated " + g["out"] + (" (changed)" if old is not None else " (new)"))
        # 2. proofs
        targets = cfg["coq_targets"]
        cone = dep_cone(targets)
        bad = scan_forbidden(cone)
        if bad:
            problems.append("forbidden vernacular in proof cone: " + ", ".join(bad))
        stmts = count_statements(cone)
        obligations = len(stmts)
        rc, out, dt, cmd = coq_build(targets, int(tcfg.get("coq_timeout", 1500)))
        checker_cmds.append(cmd)
        open(os.path.join(rundir, "coq_build.log"), "w").write(out)
        if rc != 0:
            failed = re.findall(r'File "\./([^"]+)", line (\d+)', out)
            msg = "Coq build failed (%s)" % ", ".join("%s:%s" % f for f in failed[:5])
            err = re.findall(r"Error:[^\n]*(?:\n[^\n]+){0,6}", out)
            problems.append(msg + "\n" + "\n".join(err[:3]))
            failed_files = {f[0] for f in failed}
            discharged = len([s for s in stmts if not any(
                s.startswith(os.path.dirname(ff) + "." + os.path.basename(ff)[:-2] + ".") for ff in failed_files)])
            # statements in files depending on a failed file are not discharged either; be conservative
            if failed_files:
                discharged = min(discharged, obligations - 1)
        else:
            discharged = obligations
            # Print Assumptions of the property theorems
            pf = cfg.get("props_file")
            if pf:
                rc2, out2, _ = sh(["coqc"] + COQFLAGS + [pf], cwd=COQ, timeout=600)
                checker_cmds.append("coqc -R coq V " + pf + "  (Print Assumptions)")
                if rc2 != 0:
                    problems.append("property theorem file %s no longer checks:\n%s" % (pf, out2[-1500:]))
                    discharged = obligations - 1
                else:
                    assumptions_seen = parse_assumptions(out2)
                    # every property theorem must be closed, or rest only on standard-library axioms that the
                    # property's config names (props/Cxx.json "allowed_axioms"); anything else is a broken obligation
                    allowed = set(cfg.get("allowed_axioms", []))
                    for a in assumptions_seen:
                        if a.startswith("Axioms:"):
                            names = set(re.findall(r"([A-Za-z0-9_.']+)\s*:", a[len("Axioms:"):]))
                            extra = sorted(n for n in names if n.split(".")[-1] not in allowed and n not in allowed)
                            if extra:
                                problems.append("Print Assumptions of %s lists axioms that are not declared in the trusted base: %s" % (pf, ", ".join(extra)))
                    if not assumptions_seen:
                        problems.append("property theorem file %s prints no assumptions (Print Assumptions missing?)" % pf)
                    open(os.path.join(rundir, "assumptions.log"), "w").write(out2)
        # 2b. thorough tier: independent re-check of the compiled property file with coqchk. Only a snapshot of the
        # compiled files is taken under the build lock; coqchk itself (minutes) runs on the snapshot after the lock
        # is released, beside the harness and the case evaluation.
        coqchk_job = None
        if tier == "thorough" and rc == 0 and cfg.get("props_file") and os.environ.get("VERIF_COQCHK", "1") != "0":
            snap = os.path.join(rundir, "coqchk-snap")
            shutil.rmtree(snap, ignore_errors=True)
            sh(["rsync", "-a", "--include=*/", "--include=*.vo", "--exclude=*", COQ + "/", snap + "/"], cwd=ROOT, timeout=600)
            coqchk_job = ("V." + cfg["props_file"][:-2].replace("/", "."), snap)
        # 3. harness build (from /repo's working tree)
        hbin = None
        if cfg.get("harness"):
            # per-tier extra build flags, e.g. "go_build_flags": ["-race"] in the thorough section
            gflags = list(tcfg.get("go_build_flags", []))
            hbin = os.path.join(BIN, cfg["harness"] + ("-" + "".join(f.strip("-") for f in gflags) if gflags else ""))
            rc, o, dt = go_build("./cmd/" + cfg["harness"], hbin, cfg.get("tags", "verif"), extra=gflags)
            if rc != 0:
                problems.append("harness does not build against /repo's current sources "
                                "(correspondence cannot be established):\n" + o[-2500:])
                hbin = None

    coqchk_thread = None
    if coqchk_job:
        import threading
        def do_coqchk():
            mod, snap = coqchk_job
            rc3, out3, dt3 = sh(["coqchk", "-silent", "-o", "-R", snap, "V", mod], cwd=snap,
                                timeout=int(tcfg.get("coqchk_timeout", 2400)))
            checker_cmds.append("coqchk -silent -o -R coq V %s  (on a snapshot of the compiled files)" % mod)
            open(os.path.join(rundir, "coqchk.log"), "w").write(out3)
            if rc3 == 124:
                notes.append("coqchk on %s did not finish within its time limit (%.0fs); kernel result stands" % (mod, dt3))
            elif rc3 != 0:
                problems.append("coqchk rejects %s:\n%s" % (mod, out3[-1500:]))
            else:
                m3 = re.search(r"CONTEXT SUMMARY(.*)", out3, re.S)
                notes.append("coqchk %s ok in %.0fs: %s" % (mod, dt3, re.sub(r"\s+", " ", (m3.group(1) if m3 else out3)[-900:]).strip()))
            shutil.rmtree(snap, ignore_errors=True)
        coqchk_thread = threading.Thread(target=do_coqchk)
        coqchk_thread.start()
    # 4. run the harness (outside the build lock)
    if hbin:
        cmd = [hbin, "-seed", str(seed), "-n", str(n), "-tier", tier, "-out", rundir]
        if replay:
            cmd += ["-replay", replay]
        rc, o, dt = sh(cmd, cwd=workdir, env=GOENV, timeout=int(tcfg.get("timeout", 900)))
        open(os.path.join(rundir, "harness.log"), "w").write(o)
        rp = os.path.join(rundir, "result.json")
        if rc != 0 or not os.path.exists(rp):
            problems.append("harness exited %d without a result (implementation crashed the harness?):\n%s" % (rc, o[-3000:]))
        else:
            harness_res = json.load(open(rp))
        # 5. evaluate the model on the same cases
        cfiles = sorted(glob.glob(os.path.join(rundir, "cases_*.v")))
        # at most VERIF_JOBS model evaluations at a time across ALL running checks (global slot files)
        import concurrent.futures
        def run_cases(cf):
            with Slot():
                p = subprocess.run(["sh", "-c", "ulimit -s unlimited 2>/dev/null || ulimit -s 4000000 2>/dev/null; ulimit -v %d 2>/dev/null; exec \"$@\"" % int(tcfg.get("cases_mem_kb", 16000000)), "sh",
                                    "timeout", str(int(tcfg.get("cases_timeout", 900))), "coqc"] + COQFLAGS + [cf],
                                   cwd=rundir, stdout=subprocess.PIPE, stderr=subprocess.STDOUT, text=True)
            return cf, p.returncode, p.stdout
        with concurrent.futures.ThreadPoolExecutor(max_workers=NSLOTS) as ex:
            results = list(ex.map(run_cases, cfiles))
        for cf, prc, out in results:
            body, txt = parse_mismatches(out)
            checker_cmds.append("coqc -R coq V " + os.path.relpath(cf, ROOT) + "  (vm_compute model vs implementation)")
            if prc != 0 or body is None:
                problems.append("model evaluation of %s failed:\n%s" % (os.path.basename(cf), out[-2000:]))
            elif body not in ("[]", "nil", "[ ]"):
                mismatch_cases.append((os.path.basename(cf), body))
        cases_run = int(harness_res.get("model_cases", 0))
        for cf, body in mismatch_cases:
            problems.append("correspondence broken: model and implementation disagree on cases %s of %s" % (body[:600], cf))

    if coqchk_thread:
        coqchk_thread.join()
    # 6. verdict
    known = load_known()
    violations = harness_res.get("violations", []) if harness_res else []
    known_hits, new_viol = {}, []
    for v in violations:
        k = is_known(known, pid, v.get("key", ""))
        if k:
            known_hits.setdefault(k["key"], []).append(v)
        else:
            new_viol.append(v)
    lines = []
    for f in known.get("findings", []):
        if f.get("property") == pid:
            hit = known_hits.get(f["key"])
            lines.append("KNOWN-FINDING: property=%s %s [%s]%s" % (pid, f.get("what", ""), f["key"],
                         "" if hit else " (listed; not re-observed in this run)"))
    exit_code = 0
    replay_path = None
    stale = os.path.join(OUTROOT, "replays", "%s-%s-seed%d.json" % (pid, tier, seed))
    if not (new_viol or problems) and os.path.exists(stale):
        os.remove(stale)     # a passing run supersedes the replay of an earlier failing run with the same parameters
    if new_viol or problems:
        exit_code = 1
        os.makedirs(os.path.join(OUTROOT, "replays"), exist_ok=True)
        replay_path = os.path.join(OUTROOT, "replays", "%s-%s-seed%d.json" % (pid, tier, seed))
        rep = {"property": pid, "tier": tier, "seed": seed, "n": n,
               "replay_cmd": "VERIF_SEED=%d ./check %s --tier %s" % (seed, pid, tier)}
        if new_viol:
            rep["kind"] = "failing-input"
            rep["violations"] = new_viol[:20]
            rep["broken_obligations"] = problems
            lines.append("VIOLATION property=%s replay=%s" % (pid, replay_path))
        else:
            rep["kind"] = "no-failing-input-found"
            rep["broken_obligations"] = problems
            rep["note"] = ("a proof obligation or the model/implementation correspondence no longer checks; the search on "
                           "the implementation (%d evaluations) found no input on which the property itself fails"
                           % int(harness_res.get("evaluations", 0)))
            if mismatch_cases and os.path.exists(os.path.join(rundir, "cases.jsonl")):
                rep["mismatching_cases"] = lookup_cases(os.path.join(rundir, "cases.jsonl"), mismatch_cases)
            lines.append("VIOLATION property=%s replay=%s no-failing-input-found" % (pid, replay_path))
        write_json(replay_path, rep)

    wall = time.time() - t0
    cov = {
        "obligations": max(obligations, 1),
        "discharged": discharged if discharged > 0 else 0,
        "checker_cmd": " ; ".join(checker_cmds) or "none",
        "trusted_base": (["Coq 8.16.1 kernel + vm_compute (no native_compute)",
                          "Print Assumptions of property theorems: " + ("; ".join(sorted(set(assumptions_seen))) or "not captured")]
                         + cfg.get("trusted_base", [])),
        "theorems": [s for s in count_statements([os.path.join(COQ, cfg["props_file"])])] if cfg.get("props_file") else [],
        "evaluations": int(harness_res.get("evaluations", 0)),
        "distinct_nontrivial": int(harness_res.get("distinct_nontrivial", 0)),
        "rule": harness_res.get("rule", ""),
        "samples": harness_res.get("samples", [])[:8] or ["(no harness output)"],
        "histogram": harness_res.get("histogram", {}),
        "traces_validated_against_impl": cases_run,
        "disagreements_checked": len(mismatch_cases),
        "known_findings_seen": sorted(known_hits.keys()),
        "exhaustive": bool(harness_res.get("exhaustive", False)),
        "notes": notes + harness_res.get("notes", []),
        "broken": problems,
    }
    ev = {"property_id": pid, "tier": tier, "seed": seed, "level": cfg.get("level", "proof"),
          "coverage": cov, "assumptions": cfg.get("assumptions", []), "wall_s": round(wall, 2),
          "violations": len(new_viol) + (1 if (problems and not new_viol) else 0)}
    write_json(os.path.join(OUTROOT, "evidence", pid + ".json"), ev)
    for ln in lines:
        print(ln)
    print("[check %s] tier=%s seed=%d obligations=%d/%d model_cases=%d evaluations=%d known=%d new_violations=%d broken=%d wall=%.1fs"
          % (pid, tier, seed, discharged, obligations, cases_run, cov["evaluations"], len(known_hits), len(new_viol), len(problems), wall))
    if problems:
        for p in problems:
            print("  BROKEN: " + p[:1200].replace("\n", "\n    "))
    return exit_code


def lookup_cases(jsonl, mismatch_cases):
    idx = set()
    for _, body in mismatch_cases:
        for m in re.finditer(r"\d+", body):
            idx.add(int(m.group(0)))
        if len(idx) > 50:
            break
    res = []
    try:
        for ln in open(jsonl):
            try:
                c = json.loads(ln)
            except Exception:
                continue
            if c.get("i") in idx:
                res.append(c)
                if len(res) >= 10:
                    break
    except Exception:
        pass
    return res


def setup():
    """MANIFEST.setup_cmd: build everything from files on disk."""
    rc_all = 0
    with Lock("build"):
        ensure_coq_makefile()
        rc, out, dt = sh(["make", "-j16", "-k"], cwd=COQ, timeout=3600)
        print("[setup] coq make rc=%d %.0fs" % (rc, dt))
        if rc != 0:
            print(out[-3000:]); rc_all = 1
        for d in sorted(glob.glob(os.path.join(HARNESS, "cmd", "*"))):
            name = os.path.basename(d)
            if not glob.glob(os.path.join(d, "*.go")):
                continue
            rc, o, dt = go_build("./cmd/" + name, os.path.join(BIN, name))
            print("[setup] go build %s rc=%d %.0fs" % (name, rc, dt))
            if rc != 0:
                print(o[-2000:]); rc_all = 1
        if os.path.isdir(os.path.join(ROOT, "tools", "goextract")):
            rc, o, dt = sh(["go", "build", "-o", os.path.join(BIN, "goextract"), "."],
                           cwd=os.path.join(ROOT, "tools", "goextract"), env=GOENV, timeout=600)
            print("[setup] go build goextract rc=%d" % rc)
            if rc != 0:
                print(o[-2000:]); rc_all = 1
    return rc_all


def main(argv):
    if len(argv) >= 2 and argv[1] == "--setup":
        return setup()
    if len(argv) < 2:
        print("usage: check <Cxx> [--tier quick|thorough] [--replay file] | --setup")
        return 2
    pid = argv[1]
    tier = os.environ.get("VERIF_TIER", "quick")
    replay = None
    i = 2
    while i < len(argv):
        if argv[i] == "--tier":
            tier = argv[i + 1]; i += 2
        elif argv[i] == "--replay":
            replay = argv[i + 1]; i += 2
        else:
            i += 1
    if tier not in ("quick", "thorough"):
        tier = "quick"
    try:
        seed = int(os.environ.get("VERIF_SEED", "1"))
    except ValueError:
        seed = 1
    if replay and os.path.exists(replay):
        try:
            r = json.load(open(replay))
            seed, tier = int(r.get("seed", seed)), r.get("tier", tier)
            if "n" in r:
                os.environ["VERIF_N"] = str(r["n"])
        except Exception:
            pass
        replay = None
    return run_check(pid, tier, seed, replay)


if __name__ == "__main__":
    sys.exit(main(sys.argv))
